"""C02 — static resources: the right file, its exact bytes, its media type."""
from .servebase import *
import refmime, vlib

SPECIAL = ("/", "/style.css", "/script.js", "/favicon.svg", "/file-upload/initiate", "/form-get-method", "/form-url-encoded-enctype-post-method",
           "/form-multipart-enctype-post-method")
FILTERED = set(" '\"&|;")


class TreeView:
    """the case's tree as the documented lookup sees it (no symlink following: a link on the way makes the oracle abstain)"""
    def __init__(self, ents):
        self.k = {}
        for e in ents:
            parts = e[1].split("/")
            for i in range(1, len(parts)):
                self.k.setdefault("/".join(parts[:i]), ("D",))
            self.k[e[1]] = (e[0], e[2]) if e[0] != "D" else ("D",)

    def resolve(self, path):
        """path: '/...' relative to the served root -> ('F', data) | ('D',) | None | 'LINK' """
        cur = "outer/root"
        comps = path.split("/")
        must_dir = comps[-1] in ("", ".")
        for c in comps:
            if c in ("", "."):
                if self.k.get(cur, (None,))[0] not in ("D",):
                    return None
                continue
            if self.k.get(cur, (None,))[0] != "D":
                return None
            cur = cur + "/" + c
            e = self.k.get(cur)
            if e is None:
                return None
            if e[0] == "L":
                return "LINK"
        e = self.k.get(cur)
        if must_dir and e[0] != "D":
            return None
        return e


# extensions the code registers beyond the frozen reference table (read from the regenerated chain by P.extra): additions, typed by the
# code's own entry - the reference has no opinion on them.  Empty at the pinned commit.
BEYOND = {}


def chain_beyond_reference():
    """{extension: type} for every suffix of coq/generated/GenMime.v whose extension the reference table does not list"""
    import re, os
    out = {}
    try:
        txt = open(os.path.join(vlib.V, "coq", "generated", "GenMime.v")).read()
    except OSError:
        return out
    dec = lambda l: bytes(int(x) for x in l.split(";") if x.strip()).decode("utf-8", "replace")
    for m in re.finditer(r"RSuffix \[([0-9;]*)\] \[([0-9;]*)\]", txt):
        out[dec(m.group(1))] = dec(m.group(2))
    for m in re.finditer(r"RExt \[((?:\[[0-9;]*\];? ?)*)\] \[([0-9;]*)\]", txt):
        for sm in re.finditer(r"\[([0-9;]*)\]", m.group(1)):
            out[dec(sm.group(1))] = dec(m.group(2))
    return {k[1:]: v for k, v in out.items() if k.startswith(".") and k[1:] not in refmime.TABLE}


def mime_of(name):
    base = name.rsplit("/", 1)[-1]
    if "." not in base[1:]:
        return refmime.DEFAULT
    ext = base.rsplit(".", 1)[1]
    return refmime.TABLE.get(ext, BEYOND.get(ext, refmime.DEFAULT))


class P(ServeProp):
    ID = "C02"
    THEOREMS = ["C02_lookup_refines", "C02_served_exact", "C02_wire_single", "C02_none_is_404", "C02_query_fragment_irrelevant", "C02_reparse_clean", "C02_F4_witness", "C02_mime_by_extension", "C02_mime_is_reference", "C02_mime_unknown_is_default", "C02_mime_tables_agree"]
    COQ_TARGETS = ["theories/Props/C02.vo", "theories/Extract.vo"]
    N_QUICK = 2000
    N_THOROUGH = 60000
    RULE = ("serve cases (GET, no Range): trees with nested directories, empty files, binary content with every byte value, sizes around the "
            "8 KiB / request-buffer boundaries (thorough: 64 KiB), names with several dots / no extension / upper-case extension / non-ASCII letters, "
            "directories named like files (x.html, index.html), symlinks x paths derived from the tree plus near misses (missing, extra or doubled "
            "slash, '/.', extensionless for .html files, with query and fragment).  Oracle (implementation only): an independent Python "
            "implementation of the documented lookup on the case's tree + the frozen reference media-type table (tools/refmime.py): status, body, "
            "Content-Type, Content-Length; abstains when a symlink is on the way.  Non-trivial = the oracle judged the case and the answer is 200, "
            "distinct by case line.")
    ASSUMPTIONS = ServeProp.ASSUMPTIONS + ["targets with a symlink on the way are compared model<->implementation only (the Python oracle abstains)"]

    def gen(self, rnd, tier, n):
        out = []
        big = (0, 1, 2, 10, 300, 8191, 8192, 8193, 9999, 10000, 10001) if tier == "quick" else (0, 1, 2, 10, 300, 8191, 8192, 8193, 9999, 10000, 10001, 65535, 65536, 65537)
        for i in range(n):
            sizes = big if rnd.random() < 0.05 else (0, 1, 2, 10, 10, 300)
            t = gs.gen_tree(rnd, maxents=rnd.choice([3, 6, 10, 14]), sizes=sizes)
            if rnd.random() < 0.2:
                # a directory with an index page (and sometimes a same-named .html sibling): the lookup order is decided on these
                d = rnd.choice([x for x in t.dirs if x.startswith("outer/root")])
                if d == "outer/root" or rnd.random() < 0.5:
                    d = d + "/" + rnd.choice(["docs", "d.x", "v1..2", "a b", "é"])
                    if not t.has(d): t.ents.append(("D", d)); t.dirs.append(d)
                if (d in t.dirs) and not t.has(d + "/index.html"): t.ents.append(("F", d + "/index.html", gs.file_data(rnd, sizes)))
                if rnd.random() < 0.3 and not t.has(d + ".html"): t.ents.append(("F", d + ".html", b"sibling-page"))
            inroot = t.inroot()
            r = rnd.random()
            if inroot and r < 0.8:
                x = rnd.choice(inroot)
                m = rnd.random()
                if m < 0.12: x += "/"
                elif m < 0.30 and x.endswith(".html"): x = x[:-5]
                elif m < 0.40: x += "?q=1&x=%20"
                elif m < 0.46: x += "#frag"
                elif m < 0.50: x += "?a#b"
                elif m < 0.54: x += "/index.html"
                elif m < 0.58: x = x.replace("/", "//", 1)
                elif m < 0.61: x += "/."
                elif m < 0.64: x += ".html"
                elif m < 0.66: x += "#f?x"
                elif m < 0.68 and "/" in x[1:]: x = x.rsplit("/", 1)[0]
                elif m < 0.76: x += rnd.choice(["?next=/", "#/", "?return=" + x + "/", "?/", "?a=b/#c/", "?x=.html", "#.html", "?index.html", "/?next=/", "?a=/index.html"])
                tg = x
            else:
                tg = gs.gen_target(rnd, t)
            out.append(gs.serve_case(rnd, kind="serve", tree=t, target=tg, method="GET", headers=[] if rnd.random() < 0.8 else ["Origin: https://foo.example"]))
        return out

    def expected(self, pc):
        """-> None (abstain) | ('404',) | ('200', data, mime)  plus a class tag for the known tree-side corners"""
        rl = pc["req"].split(b"\r\n")[0].decode("utf-8", "replace").split(" ")
        if len(rl) != 3 or rl[0] != "GET":
            return None, None
        tgt = rl[1]
        if not tgt.startswith("/"):
            return None, None
        # a '#' before the first '?': by RFC 3986 everything from the '#' on is the fragment; the vendored url-build-parse cuts at the first
        # '?' instead and keeps "#..." in the path.  The expectation is the RFC's; what differs from it is the listed class C02-F4
        fbq = "#" in tgt and "?" in tgt and tgt.index("#") < tgt.index("?")
        path = tgt.split("#")[0].split("?")[0]
        if path in SPECIAL or ".." in path.split("/") or "\\" in path:
            return None, None
        tv = TreeView(pc["ents"])
        filt = any(ch in FILTERED or ord(ch) < 32 or ord(ch) == 127 for ch in path)
        e = tv.resolve(path)
        if e == "LINK":
            return None, None
        tag = "frag-before-query" if fbq else "filtered-char" if filt else None
        if e is not None and e[0] == "F":
            return ("200", e[1], mime_of(path)), tag
        if e is not None and e[0] == "D":
            ip = path + ("index.html" if path.endswith("/") else "/index.html")
            ie = tv.resolve(ip)
            if ie == "LINK":
                return None, None
            if ie is not None and ie[0] == "F":
                return ("200", ie[1], "text/html"), tag
            if ie is not None:
                return ("404",), "candidate-not-regular"
            return ("404",), tag
        hp = path + ".html"
        he = tv.resolve(hp)
        if he == "LINK":
            return None, None
        if he is not None and he[0] == "F":
            return ("200", he[1], "text/html"), ("html-html" if path.endswith(".html") else tag)
        if he is not None:
            return ("404",), "candidate-not-regular"
        return ("404",), tag

    def extra(self, tier, seed, work, notes):
        BEYOND.clear(); BEYOND.update(chain_beyond_reference())
        if BEYOND:
            notes.append("media types: the code registers %d extension(s) beyond the frozen reference table (%s); they are additions - typed by the code's own "
                         "entry, every reference entry is still required as it stands" % (len(BEYOND), ", ".join(".%s -> %s" % kv for kv in sorted(BEYOND.items()))))
        return {"failures": [], "coverage": {"extensions_beyond_reference": sorted(BEYOND)}}

    def oracle(self, line, out):
        raw = self.raw(out)
        if not raw:
            return None
        pc = gs.parse_case(line)
        exp, tag = self.expected(pc)
        if exp is None:
            return None
        r = httpcanon.parse_response(raw)
        if r is None:
            return "unparseable-response"
        if exp[0] == "404":
            if r["status"] != 404:
                return "lookup-selects-nothing-but-status-%d" % r["status"]
            return None
        if r["status"] != 200:
            return "file-selected-but-status-%d" % r["status"]
        if r["body"] != exp[1]:
            return "body-differs-from-file"
        if httpcanon.header(r, "Content-Length") != [str(len(exp[1]))]:
            return "content-length-differs"
        if httpcanon.header(r, "Content-Type") != [exp[2]]:
            return "content-type-%s-expected-%s" % (httpcanon.header(r, "Content-Type"), exp[2])
        return None

    def classify(self, line, out, sig):
        exp, tag = self.expected(gs.parse_case(line))
        if tag == "candidate-not-regular" and sig.startswith("lookup-selects-nothing-but-status-5"):
            return "C02-F1"
        if tag == "filtered-char" and sig in ("file-selected-but-status-416", "lookup-selects-nothing-but-status-416"):
            return "C02-F2"
        if tag == "html-html" and sig == "file-selected-but-status-404":
            return "C02-F3"
        if tag == "frag-before-query":
            return "C02-F4"
        return None

    def nontrivial(self, line, out):
        r = self.resp(out)
        if not r or r["status"] != 200:
            return False
        return self.expected(gs.parse_case(line))[0] is not None
