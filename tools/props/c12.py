"""C12 — effective settings: command line over config file over environment over defaults."""
from .base import *

# (short, long, variable, toml key, toml table, default)  -- the documented settings (spec side of the oracle)
S = [("p", "port", "RWS_CONFIG_PORT", "port", None, "7878"), ("i", "ip", "RWS_CONFIG_IP", "ip", None, "127.0.0.1"),
     ("t", "thread-count", "RWS_CONFIG_THREAD_COUNT", "thread_count", None, "200"),
     ("a", "cors-allow-all", "RWS_CONFIG_CORS_ALLOW_ALL", "allow_all", "cors", "true"),
     ("o", "cors-allow-origins", "RWS_CONFIG_CORS_ALLOW_ORIGINS", "allow_origins", "cors", ""),
     ("m", "cors-allow-methods", "RWS_CONFIG_CORS_ALLOW_METHODS", "allow_methods", "cors", ""),
     ("h", "cors-allow-headers", "RWS_CONFIG_CORS_ALLOW_HEADERS", "allow_headers", "cors", ""),
     ("c", "cors-allow-credentials", "RWS_CONFIG_CORS_ALLOW_CREDENTIALS", "allow_credentials", "cors", ""),
     ("e", "cors-expose-headers", "RWS_CONFIG_CORS_EXPOSE_HEADERS", "expose_headers", "cors", ""),
     ("g", "cors-max-age", "RWS_CONFIG_CORS_MAX_AGE", "max_age", "cors", "86400"),
     ("r", "request-allocation-size-in-bytes", "RWS_CONFIG_REQUEST_ALLOCATION_SIZE_IN_BYTES", "request-allocation-size-in-bytes", None, "10000")]


def hx(s):
    return (s if isinstance(s, bytes) else s.encode()).hex()


class P(Prop):
    ID = "C12"
    THEOREMS = ["C12_precedence", "C12_independent", "C12_flags_reach", "C12_all_have_defaults", "C12_documented_reach", "C12_file_entry_render"]
    COQ_TARGETS = ["theories/Props/C12.vo", "theories/Extract.vo"]
    N_QUICK = 2500
    N_THOROUGH = 60000
    SEQUENTIAL = False
    RULE = ("cfg cases: for each of the 11 settings an independent choice of which of {environment, config file, command line} supply a "
            "(distinct, tagged) value - all 8 subsets occur - rendered as an environment, a config file (random key order within its table, "
            "comments, blank lines, either quote style or none, one-line arrays, spaces and tabs around '=', '_'/'-' key spellings, LF or CRLF) "
            "and a shuffled argument vector (short and long spellings, repeats: the last wins, misspelt flags as noise).  Run through "
            "set_default_values + read_config_file + CommandLineArgument::_parse in a process whose environment is cleared per case.  Oracle "
            "(implementation only): every setting equals first-of(command line, file, environment, documented default).  "
            "Non-trivial = at least two sources supply the same setting, distinct by case line.")
    ASSUMPTIONS = ["the environment is process-global: cases run sequentially inside each of 16 runner processes",
                   "config-file values in the generated class contain no '#', quotes, brackets, '=' or line breaks (C12-F1/F2 are the listed findings outside it)"]

    def val(self, rnd, tag, plain):
        pool = ["1", "7801", "a.b", "https://x.y,https://z", "true", "", "x-y", "é", "0", "127.0.0.2", "GET,PUT", "x_y", "https://my_app.example", "content-type,x_request_id", "_", "a-b_c"]
        if not plain:
            pool += ["x y", "q#r", "a=b", "[1]", "'s'", "\"d\""]
        if rnd.random() < 0.1:
            return ""              # a layer may supply the empty value: it still takes precedence over the layers below
        return tag + rnd.choice(pool)

    def gen(self, rnd, tier, n):
        out = []
        for i in range(n):
            envs, top, cors, args, exp, multi = [], [], [], [], {}, 0
            for (s, l, v, k, tb, dflt) in S:
                src = rnd.randrange(8)
                e = f = c = None
                if src & 1:
                    e = self.val(rnd, "E", False); envs.append(hx(v) + ":" + hx(e))
                if src & 2:
                    f = self.val(rnd, "F", True)
                    key = rnd.choice([k, k.replace("_", "-"), k.replace("-", "_")])
                    q = (rnd.choice(['"%s"', "'%s'", "%s", '["%s"]', "[ '%s' ]"]) % f) if f != "" else rnd.choice(['""', "''", "[]", "[ ]"])
                    line = rnd.choice(["%s = %s", "%s=%s", "%s  =  %s  ", "%s\t=\t%s", "%s = %s # comment", "%s =\t %s\t# c # d", "  %s = %s", "\t%s=%s"]) % (key, q)
                    (cors if tb else top).append(line)
                if src & 4:
                    for _ in range(rnd.randint(1, 3)):
                        c = self.val(rnd, "C", False)
                        args.append(hx(rnd.choice(["-" + s, "--" + l]) + "=" + c))
                if rnd.random() < 0.15:      # noise: spellings that are not documented must not reach anything
                    args.append(hx(rnd.choice(["--" + l.replace("-", "_"), "-" + l, "---" + l, "--" + l.upper(), s]) + "=NOISE"))
                exp[v] = c if c is not None else f if f is not None else e if e is not None else dflt
                multi += (bin(src).count("1") >= 2)
            rnd.shuffle(top); rnd.shuffle(cors)
            # blank lines and full-line comments anywhere - before, between and after the entries, inside the table too (they end nothing)
            for lst in (top, cors):
                if lst and rnd.random() < 0.4:
                    for _ in range(rnd.randint(1, 3)):
                        lst.insert(rnd.randrange(len(lst) + 1), rnd.choice(["", "", "   ", "\t", "# note", "  # indented note", "#", "# [table] in a comment", "#[cors]"]))
            # table header spellings: indented, spaces inside, a trailing comment (the reader strips blanks before it looks for the bracket)
            hdr = rnd.choice(["[cors]", "[cors]", "  [cors]", "\t[cors]", "[ cors ]", "[cors] # table", "  [cors]   # c"])
            lines = top + (["", "# c"] if rnd.random() < 0.3 else []) + ([hdr] + cors if cors or rnd.random() < 0.2 else [])
            eol = rnd.choice(["\n", "\r\n"])
            fl = "-" if not (top or cors) and rnd.random() < 0.5 else "x" + hx(eol.join(lines) + (eol if rnd.random() < 0.7 else ""))
            # the command line keeps the relative order of repeats of one flag (the last one wins)
            order = list(range(len(args))); rnd.shuffle(order)
            last = {}
            shuffled = [args[j] for j in order]
            expline = ";".join("%s=%s" % (v, hx(exp[v])) for (_, _, v, _, _, _) in S)
            # recompute what the last occurrence per flag is after shuffling
            for a in shuffled:
                txt = bytes.fromhex(a).decode()
                name, _, value = txt.partition("=")
                for (s, l, v, k, tb, dflt) in S:
                    if name in ("-" + s, "--" + l):
                        last[v] = value
            for v, value in last.items():
                exp[v] = value
            expline = ";".join("%s=%s" % (v, hx(exp[v])) for (_, _, v, _, _, _) in S)
            out.append("cfg %s %s %s # multi=%d expect=%s" % (",".join(envs) or "-", fl, ",".join(shuffled) or "-", multi, expline))
        return out

    def oracle(self, line, out):
        if out is None or out.startswith(("CRASH", "PANIC")):
            return "panic-or-crash"
        want = meta(line).get("expect")
        if want is None:
            return None
        got = dict(x.split("=", 1) for x in out.split(";") if "=" in x)
        for kv in want.split(";"):
            k, v = kv.split("=", 1)
            if got.get(k) != v:
                return "setting-%s-is-%s-expected-%s" % (k, got.get(k), v)
        return None

    def extra(self, tier, seed, work, notes):
        """the real binary started with every subset of {environment, config file, command line} supplying distinct values for the port and
        the request buffer size; observed: which port accepts connections, and the size echoed by POST /file-upload/initiate"""
        import os, random, subprocess, time, socket, re
        import netprobe, vlib
        fails, done, samples = [], 0, []
        rnd = random.Random(seed * 31337 + 12)
        try:
            exe = vlib.build_binary()
        except vlib.Infra as e:
            notes.append("campaign: skipped (%s)" % str(e)[:100])
            return {"failures": [], "coverage": {"campaign": "skipped"}}
        subsets = [1, 2, 3, 4, 5, 6, 7] if tier != "quick" else rnd.sample([3, 5, 6, 7, 2, 4], 3)
        def attempt(sub, att):
            """one start-up; -> (failure tuple or None, sample or None)"""
            base = os.path.join(work, "cfg%d_%d" % (sub, att)); os.makedirs(base, exist_ok=True)
            ports = {"E": netprobe.free_port(), "F": netprobe.free_port(), "C": netprobe.free_port()}
            sizes = {"E": 11000, "F": 12000, "C": 13000}
            env = {k: v for k, v in os.environ.items() if not k.startswith("RWS_CONFIG_")}
            args = ["-i=127.0.0.1", "-t=2"]
            if sub & 1:
                env["RWS_CONFIG_PORT"] = str(ports["E"]); env["RWS_CONFIG_REQUEST_ALLOCATION_SIZE_IN_BYTES"] = str(sizes["E"])
            if sub & 2:
                open(os.path.join(base, "rws.config.toml"), "w").write("port = %d\nrequest-allocation-size-in-bytes = %d # c\n" % (ports["F"], sizes["F"]))
            if sub & 4:
                args += ["--port=%d" % ports["C"], "-r=%d" % sizes["C"]]
            want = "C" if sub & 4 else "F" if sub & 2 else "E"
            log = open(os.path.join(base, "log"), "wb")
            p = subprocess.Popen([exe] + args, cwd=base, env=env, stdout=log, stderr=subprocess.STDOUT)
            try:
                got, dl = None, time.time() + (10 if att == 0 else 30)
                while time.time() < dl and got is None and p.poll() is None:
                    for k, port in ports.items():
                        try:
                            c = socket.create_connection(("127.0.0.1", port), timeout=0.3)
                            c.sendall(b"POST /file-upload/initiate?name=a&lastModified=1&size=1 HTTP/1.1\r\n\r\n")
                            r = netprobe.recv_all(c, 3.0); c.close(); got = (k, r); break
                        except OSError:
                            pass
                    time.sleep(0.05)
                if got is None:
                    return ("start-up with sources %s" % bin(sub), "server-not-reachable-on-any-supplied-port", None, {"sources": sub, "args": args}), None
                m = re.search(rb"request_allocation_size_in_bytes is (\d+)", got[1])
                size_seen = int(m.group(1)) + 4000 if m else None
                sample = {"sources(env=1,file=2,cli=4)": sub, "port_from": got[0], "size_seen": size_seen}
                if got[0] != want:
                    return ("start-up with sources %s" % bin(sub), "port-taken-from-%s-expected-%s" % (got[0], want), None, {"sources": sub, "args": args, "ports": ports}), sample
                if size_seen is not None and size_seen != sizes[want]:
                    return ("start-up with sources %s" % bin(sub), "buffer-size-%s-expected-%s" % (size_seen, sizes[want]), None, {"sources": sub, "args": args}), sample
                return None, sample
            finally:
                p.kill(); p.wait(); log.close()
        for sub in subsets:
            # ports are picked free and then bound by the server: another process can take one in between, and a loaded machine starts slowly.
            # A failure counts only if a second start-up with fresh ports and a longer deadline fails the same way
            f1, sample = attempt(sub, 0)
            if f1 is not None:
                f2, sample2 = attempt(sub, 1)
                if f2 is not None and f2[1] == f1[1]:
                    fails.append(f2)
                else:
                    notes.append("campaign: start-up %s failed once (%s) and passed when repeated with fresh ports" % (bin(sub), f1[1]))
                    sample = sample2
            done += 1
            if sample and len(samples) < 3:
                samples.append(sample)
        return {"failures": fails, "coverage": {"campaign": "real binary start-ups", "startups": done, "startup_samples": samples}}

    def classify(self, line, out, sig):
        f = strip_meta(line).split(" ")
        if len(f) < 3 or not f[2].startswith("x"):
            return None
        content = bytes.fromhex(f[2][1:]).decode("utf-8", "replace")
        import re
        if re.search(r'=\s*\[\s*$', content, re.M):
            return "C12-F2"
        if re.search(r'=\s*["\'][^"\'\n]*#', content):
            return "C12-F1"
        return None

    def outcome_class(self, line, out):
        return "cfg:multi=%s" % meta(line).get("multi", "?")

    def nontrivial(self, line, out):
        return int(meta(line).get("multi", "0")) >= 1
