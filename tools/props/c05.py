"""C05 — responses are well-formed, self-consistent HTTP and delivered in full."""
import re
from .servebase import *

KNOWN_NAMES = {"accept-ch", "critical-ch", "vary", "x-content-type-options", "accept-ranges", "x-frame-options", "date-unix-epoch-nanos",
               "cache-control", "last-modified-unix-epoch-nanos", "content-type", "content-range", "content-length", "access-control-allow-origin",
               "access-control-allow-credentials", "access-control-allow-methods", "access-control-allow-headers", "access-control-expose-headers",
               "access-control-max-age"}
FRAMING = ("content-length", "content-type", "content-range", "transfer-encoding")
HOSTILE = [b"a\rb", b"a\nb", b"a\r\nX-Evil: 1", b"a\x00b", b"a: b: c", b"\r\n\r\nHTTP/1.1 200 OK", b"x\r", b"\nSet-Cookie: a=b", b"a\x0bb", b"a\x85b", "a b".encode(),
           b":", b"", b" ", b"a" * 300]


def blank_volatile(raw):
    return re.sub(rb"(Date-Unix-Epoch-Nanos|Last-Modified-Unix-Epoch-Nanos): [^\r\n]*", rb"\1: ", raw)


class P(ServeProp):
    ID = "C05"
    THEOREMS = ["C05_wire_form", "C05_status_line", "C05_reasons_are_iana", "C05_no_injection", "C05_parsed_headers_clean", "C05_header_list_form",
                "C05_framing_headers_once", "C05_content_length_is_body_length", "C05_decimal_is_right", "C05_write_all_delivers", "C05_single_write_refuted"]
    COQ_TARGETS = ["theories/Props/C05.vo", "theories/Extract.vo"]
    N_QUICK = 1200          # pairs
    N_THOROUGH = 30000
    RULE = ("serve/serveL cases in pairs (same request; second member through a transport that accepts the response in pieces: every chunk size "
            "1..64, a single short first write at every offset 1..400, alternating sizes): all methods, valid and damaged requests, hostile Origin / "
            "Access-Control-Request-* / Range / Content-Type values containing CR, LF, CRLF + a forged header line, NUL, colons, U+2028.  Oracle "
            "(implementation only, independent strict parser tools/httpcanon.py): status line with a code of the IANA table and its phrase, header "
            "lines name ':' value without CR/LF and with names from the server's fixed set, blank line, Content-Length = body bytes (no body for "
            "HEAD/OPTIONS), no duplicate framing header; the piecewise member equals the whole-write member byte for byte (timestamps blanked).  "
            "Non-trivial = hostile header or piecewise transport, distinct by case line.")

    def gen(self, rnd, tier, n):
        from .c04 import P as C04
        self._c04 = C04()
        out = []
        for i in range(n):
            kind = "serveL" if rnd.random() < 0.15 else "serve"
            t = gs.gen_tree(rnd, maxents=rnd.choice([2, 6]))
            meth = rnd.choice(["GET", "GET", "GET", "HEAD", "OPTIONS", "POST", "PUT"])
            tg = gs.gen_target(rnd, t) if rnd.random() < 0.8 else rnd.choice(["/", "/style.css", "/form-get-method?a=%0d%0aX: y", "/x?%0d%0a"])
            cors, origins = gs.gen_cors(rnd)
            hs = []
            hostile = rnd.random() < 0.6
            if hostile:
                for nm in rnd.sample(["Origin", "Access-Control-Request-Method", "Access-Control-Request-Headers", "Range", "Content-Type", "Host"], rnd.randint(1, 3)):
                    hs.append(nm.encode() + b": " + rnd.choice(HOSTILE))
            else:
                if rnd.random() < 0.5: hs.append(b"Origin: " + gs.gen_origin(rnd, origins).encode())
                if rnd.random() < 0.3: hs.append(b"Range: " + rnd.choice(gs.RANGES).encode())
            ver = rnd.choice(gs.VERSIONS).encode() if rnd.random() < 0.15 else b"HTTP/1.1"      # every supported version, in either letter case: the answer's status line does not follow it
            req = meth.encode() + b" " + tg.encode("utf-8", "surrogateescape") + b" " + ver + b"\r\n" + b"".join(h + b"\r\n" for h in hs) + b"\r\n"
            if rnd.random() < 0.2:
                # the form controllers and their error branches answer too (every response the server emits)
                fm, ftg, fhs, fbody = self._c04.form_request(rnd)
                req = fm.encode() + b" " + ftg.encode() + b" HTTP/1.1\r\n" + b"".join(h.encode() + b"\r\n" for h in fhs) + b"\r\n" + fbody
            if rnd.random() < 0.15:
                req = gs.mutate_request(rnd, req)
            r = rnd.random()
            if r < 0.45: acc = "acc=%d" % rnd.randint(1, 64)
            elif r < 0.8: acc = "acc=%d,1000000" % rnd.randint(1, 400)
            else: acc = "acc=" + ",".join(str(rnd.choice([1, 2, 3, 7, 100])) for _ in range(rnd.randint(2, 6)))
            hm = " hostile=1" if hostile else ""
            out.append(gs.serve_case(rnd, kind=kind, tree=t, cors=cors, raw_req=req, meta="pair=%d.0%s" % (i, hm)))
            out.append(gs.serve_case(rnd, kind=kind, tree=t, cors=cors, raw_req=req, opts=acc, meta="pair=%d.1%s" % (i, hm)))
        return out

    def oracle(self, line, out):
        raw = self.raw(out)
        if raw is None or raw == b"":
            return None            # C04's concern
        r = httpcanon.parse_response(raw)
        if r is None:
            return "response-not-strictly-parseable"
        if httpcanon.IANA.get(r["status"]) != r["reason"]:
            return "status-%d-with-phrase-%r" % (r["status"], r["reason"])
        names = [n.lower() for n, _ in r["headers"]]
        for n in names:
            if n not in KNOWN_NAMES:
                return "unexpected-header-line-%s" % n
        for f in FRAMING:
            if names.count(f) > 1:
                return "duplicate-%s" % f
        req = gs.parse_case(line)["req"]
        meth = httpcanon.request_method(req)      # as the parser sees it (U+2028 or CR before "OPTIONS" is trimmed away)
        cl = httpcanon.header(r, "Content-Length")
        if meth in (b"HEAD", b"OPTIONS"):
            # no body; the 400 for a request that could not be parsed is built without knowing the method and carries its message - but a
            # request that certainly parses (plain ASCII head, known method and version, three fields) has a known method whatever its target
            head = req.split(b"\r\n\r\n")[0]
            lines = head.split(b"\r\n")
            rl = lines[0].split(b" ")
            surely_parsed = (b"\r\n\r\n" in req and all(all(32 <= c < 127 for c in l) for l in lines) and len(rl) == 3 and rl[1] != b"" and
                             rl[2].upper() in (b"HTTP/0.9", b"HTTP/1.0", b"HTTP/1.1", b"HTTP/2.0") and all(b": " in l for l in lines[1:]))
            if r["body"] != b"" and not (r["status"] == 400 and cl == [str(len(r["body"]))] and not surely_parsed):
                return "body-on-head-or-options"
        elif cl and cl[0] != str(len(r["body"])):
            return "content-length-%s-body-%d" % (cl[0], len(r["body"]))
        return None

    def group_oracle(self, cases, impl):
        fails, pairs = [], {}
        for i, l in enumerate(cases):
            p = meta(l).get("pair")
            if p:
                g, k = p.split(".")
                pairs.setdefault(g, {})[k] = i
        for g, d in pairs.items():
            if len(d) != 2:
                continue
            a, b = self.raw(impl[d["0"]]), self.raw(impl[d["1"]])
            if a is None or b is None:
                continue
            def echo_sorted(x):
                # the form echo pages list the fields in hash-map order, which differs from run to run: compare them as sets of lines
                sp = httpcanon.split_head(x)
                if sp and b"Content-Type: text/plain" in sp[0]:
                    return sp[0] + b"\r\n\r\n" + b"\r\n".join(sorted(sp[1].split(b"\r\n")))
                return x
            if echo_sorted(blank_volatile(a)) != echo_sorted(blank_volatile(b)):
                ra, rb = httpcanon.parse_response(a), httpcanon.parse_response(b)
                if ra and rb and ra["status"] >= 400 and ra["status"] != 404 and ra["status"] == rb["status"]:
                    # error-message bodies quote the scratch directory, which differs between the two runs (".../impl3/w" and ".../impl12/w" do
                    # not even have the same length): compare with the directory and the two length headers blanked
                    import re as _re
                    def scrub(x):
                        # error bodies are free text (they quote the scratch directory, or an offset into a target that holds it): the heads
                        # must agree, with the two length headers blanked; that both members are complete is checked per member
                        sp = httpcanon.split_head(blank_volatile(x))
                        return _re.sub(rb"(Content-Length|Content-Range): [^\r\n]*", rb"\1: ", sp[0]) if sp else x
                    if scrub(a) == scrub(b):
                        continue
                fails.append((d["1"], "piecewise-transport-received-%d-of-%d-bytes" % (len(b), len(a))))
        return fails

    def nontrivial(self, line, out):
        m = meta(line)
        return "hostile" in m or m.get("pair", "").endswith(".1")
