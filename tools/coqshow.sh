#!/bin/bash
# usage: coqshow.sh <file.v> <line>  -- compile the first <line> lines followed by "Show." and print the goals
f=$1; n=$2; d=$(mktemp -d); b=$(basename $f .v)
head -n $n $f > $d/T_$b.v; echo "Show. Admitted." >> $d/T_$b.v
cd /verif/coq && timeout 300 coqc -Q theories Rws -Q generated Rws -noglob $d/T_$b.v 2>&1 | tail -${3:-60}
rm -rf $d
