#!/bin/bash
# usage: cmake.sh <make targets...>  -- make under a time and memory limit, print the tail and the exit status
cd /verif/coq
( ulimit -v ${COQ_MEM_KB:-12000000}; timeout ${COQ_TIMEOUT:-900} make -j16 "$@" 2>&1 | grep -v "^COQC\|^COQDEP\|Closed under" | tail -${TAIL:-25}; echo "make exit: ${PIPESTATUS[0]}" )
