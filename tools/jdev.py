#!/usr/bin/env python3
"""dev: jrt correspondence + round-trip failures.  usage: jdev.py N seed"""
import sys, os, random, shutil, collections, json
sys.path.insert(0, os.path.dirname(os.path.abspath(__file__)))
from vlib import *
from gen import jsonrt as J
n, seed = int(sys.argv[1]), int(sys.argv[2])
rnd = random.Random(seed); stats = {}
trees = []
for i in range(n):
    r = rnd.random()
    t = J.gen_object(rnd, rnd.choice([0, 1, 2, 3, 4]), stats) if r < 0.7 else J.gen_array(rnd, rnd.choice([0, 1, 2]), stats)
    trees.append(t)
cases = ["jrt " + J.enc(t) for t in trees]
work = os.path.join(B, "work", "jdev-%d" % os.getpid()); os.makedirs(work, exist_ok=True)
try:
    a = run_impl(os.path.join(ENV["CARGO_TARGET_DIR"], "debug", "rws_harness"), cases, work); b = run_model(os.path.join(B, "ocaml", "model_runner"), cases, work)
finally:
    shutil.rmtree(work, ignore_errors=True)
b = [x.rsplit(" flat=", 1)[0] for x in b]
dis = [i for i in range(n) if a[i] != b[i]]
print("cases", n, "disagreements", len(dis))
for i in dis[:int(os.environ.get("SHOW", "4"))]:
    k = next((j for j in range(min(len(a[i]), len(b[i]))) if a[i][j] != b[i][j]), -1)
    print("---", cases[i][:200]); print(" impl :", a[i][max(0,k-100):k+200]); print(" model:", b[i][max(0,k-100):k+200])
sig = collections.Counter(); ex = {}
for i in range(n):
    r = a[i]
    if not r.startswith("T "): s = r.split(" ")[0]
    else:
        text = bytes.fromhex(r.split(" ")[1]).decode("utf-8", "replace"); back = r.split(" | ")[1]
        try:
            pv = json.loads(text); okj = J.same_meaning(pv, J.pyvalue(trees[i]))
        except Exception as e:
            okj = False
        okb = back == "OK " + J.expected(trees[i], field=False)
        s = ("rt-ok" if okb else "rt-" + back.split(" ")[0]) + ("" if okj else "+badjson")
        if not (okb and okj): s += " " + ",".join(sorted(J.classes(trees[i])))
    sig[s] += 1; ex.setdefault(s, i)
for s, c in sig.most_common(40):
    print(c, s, "|", cases[ex[s]][:160] if not s.startswith("rt-ok") or "+" in s else "")
