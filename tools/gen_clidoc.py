#!/usr/bin/env python3
"""GenCliDoc: the spellings the repository's own documentation gives for each setting (rws.command_line, rws.config.toml, rws.variables)."""
import re, sys
repo = sys.argv[1]
def cstr(s): return "[" + ";".join(str(b) for b in s.encode()) + "]"
cl = open(repo + "/rws.command_line").read()
flags = sorted(set(re.findall(r'(?<=\s)(--?[A-Za-z][A-Za-z0-9_-]*)=', cl)))
assert len(flags) >= 20, flags
toml = open(repo + "/rws.config.toml").read()
keys, table = [], ""
for line in toml.splitlines():
    l = line.split("#")[0].strip()
    m = re.match(r'\[(\w+)\]$', l)
    if m: table = m.group(1); continue
    m = re.match(r'([A-Za-z0-9_-]+)\s*=', l)
    if m: keys.append((table, m.group(1)))
assert len(keys) >= 10, keys
var = re.findall(r'^export\s+(\w+)=', open(repo + "/rws.variables").read(), re.M)
assert len(var) >= 10, var
print("(* GENERATED from rws.command_line, rws.config.toml, rws.variables — do not edit *)\nFrom Coq Require Import List NArith. Import ListNotations. Open Scope N_scope.")
print("Definition doc_cli_flags : list (list N) := [\n  %s]." % ";\n  ".join("%s (* %s *)" % (cstr(f), f) for f in flags))
print("Definition doc_toml_keys : list (list N * list N) := [\n  %s]." % ";\n  ".join("(%s, %s) (* [%s] %s *)" % (cstr(t), cstr(k), t, k) for t, k in keys))
print("Definition doc_variables : list (list N) := [\n  %s]." % ";\n  ".join("%s (* %s *)" % (cstr(v), v) for v in var))
sys.stderr.write("flags=%d keys=%d vars=%d\n" % (len(flags), len(keys), len(var)))
