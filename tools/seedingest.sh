#!/bin/bash
# usage: seedingest.sh <seed-name> <worktree>   -- store a seeded change produced in a scratch worktree under /verif/seeded/<seed-name>/
set -e
name=$1; wt=$2; d=/verif/seeded/$name
mkdir -p $d
git -C $wt diff -- src > $d/patch.diff
[ -s $d/patch.diff ] || { echo "empty diff"; exit 1; }
for f in demo.sh demo_output.txt meta.json; do [ -f $wt/$f ] && cp $wt/$f $d/$f; done
ls -la $d; wc -l $d/patch.diff
