"""value trees for the JSON round trip (C19): generator, the Rust float texts, the case syntax and the expected read-back"""
import math, json
from decimal import Decimal

I128_MIN, I128_MAX = -(2 ** 127), 2 ** 127 - 1
WIDTHS = {"i8": (-2**7, 2**7 - 1), "i16": (-2**15, 2**15 - 1), "i32": (-2**31, 2**31 - 1), "i64": (-2**63, 2**63 - 1), "i128": (I128_MIN, I128_MAX),
          "u8": (0, 2**8 - 1), "u16": (0, 2**16 - 1), "u32": (0, 2**32 - 1), "u64": (0, 2**64 - 1), "u128": (0, 2**128 - 1)}


def _digits(x):
    """(sign, digit string without trailing zeros, decimal exponent of the first digit) of the shortest repr of a finite non-zero float.
    Python and Rust both print the shortest digits that read back; when the exact value lies halfway between two such candidates Python
    rounds half to even and Rust rounds half up, so that case is redone here the Rust way"""
    from decimal import ROUND_HALF_UP, Context
    d = Decimal(repr(abs(x)))
    sign, digs, exp = d.as_tuple()
    ds = "".join(map(str, digs)).lstrip("0") or "0"
    e10 = len(ds) + exp - 1            # value = d1.d2.. * 10^e10
    ds = ds.rstrip("0") or "0"
    exact = Decimal(abs(x))
    ex_digs = "".join(map(str, exact.as_tuple().digits)).rstrip("0")
    if len(ex_digs) == len(ds) + 1 and ex_digs[-1] == "5":
        up = Context(prec=len(ds), rounding=ROUND_HALF_UP).create_decimal(exact)
        if float(up) == abs(x):
            s2, digs2, exp2 = up.as_tuple()
            ds2 = "".join(map(str, digs2))
            e10 = len(ds2) + exp2 - 1
            ds = ds2.rstrip("0") or "0"
    return ("-" if math.copysign(1.0, x) < 0 else ""), ds, e10


def _positional(sign, ds, e10, min_frac):
    if e10 >= 0:
        ip = ds[:e10 + 1].ljust(e10 + 1, "0"); fp = ds[e10 + 1:]
    else:
        ip = "0"; fp = "0" * (-e10 - 1) + ds
    if len(fp) < min_frac:
        fp = fp.ljust(min_frac, "0")
    return sign + ip + ("." + fp if fp else "")


def rust_display(x):
    """f64::to_string()"""
    if x == 0:
        return "-0" if math.copysign(1.0, x) < 0 else "0"
    s, ds, e = _digits(x)
    return _positional(s, ds, e, 0)


def rust_debug(x):
    """format!("{:?}", f64): exponent form for |x| >= 1e16 or 0 < |x| < 1e-4, else positional with at least one fractional digit"""
    if x == 0:
        return "-0.0" if math.copysign(1.0, x) < 0 else "0.0"
    s, ds, e = _digits(x)
    if abs(x) >= 1e16 or abs(x) < 1e-4:
        return s + ds[0] + ("." + ds[1:] if len(ds) > 1 else "") + "e" + str(e)
    return _positional(s, ds, e, 1)


# ---- trees: ("S", str) ("B", bool) ("I", int) ("F", float) ("N",) ("O", [(name, tree)]) ("AI", width, [int]) ("AF", [float]) ("AS", [str]) ("AB", [bool]) ("AN", k) ("AO", [tree])
def enc(t):
    k = t[0]
    if k == "S": return "s" + t[1].encode().hex()
    if k == "B": return "b1" if t[1] else "b0"
    if k == "I": return "i%d" % t[1]
    if k == "F": return "f%s~%s" % (rust_debug(t[1]), rust_display(t[1]))
    if k == "N": return "n"
    if k == "O": return "O(" + ",".join(n + "=" + enc(v) for n, v in t[1]) + ")"
    if k == "AI": return "AI%s(%s)" % (t[1], ";".join(str(x) for x in t[2]))
    if k == "AF": return "AF(" + ";".join("f%s~%s" % (rust_debug(x), rust_display(x)) for x in t[1]) + ")"
    if k == "AS": return "AS(" + ";".join("s" + x.encode().hex() for x in t[1]) + ")"
    if k == "AB": return "AB(" + ";".join("1" if x else "0" for x in t[1]) + ")"
    if k == "AN": return "AN(%d)" % t[1]
    if k == "AO": return "AO(" + ";".join(enc(x) for x in t[1]) + ")"
    raise ValueError(k)


def dec(src):
    """inverse of enc"""
    pos = [0]
    def peek(): return src[pos[0]] if pos[0] < len(src) else ""
    def until(stops):
        st = pos[0]
        while pos[0] < len(src) and src[pos[0]] not in stops: pos[0] += 1
        return src[st:pos[0]]
    def eat(c):
        assert peek() == c, (src[:80], pos[0]); pos[0] += 1
    def lst(item):
        eat("("); out = []
        if peek() == ")": pos[0] += 1; return out
        while True:
            out.append(item())
            if peek() == ";": pos[0] += 1; continue
            eat(")"); return out
    def flt(): return float(until(",;)").split("~")[0])
    def value():
        c = peek(); pos[0] += 1
        if c == "s": return ("S", bytes.fromhex(until(",;)")).decode())
        if c == "b": d = peek(); pos[0] += 1; return ("B", d == "1")
        if c == "i": return ("I", int(until(",;)")))
        if c == "f": return ("F", flt())
        if c == "n": return ("N",)
        if c == "O":
            eat("("); fs = []
            if peek() == ")": pos[0] += 1; return ("O", fs)
            while True:
                n = until("="); eat("="); fs.append((n, value()))
                if peek() == ",": pos[0] += 1; continue
                eat(")"); return ("O", fs)
        if c == "A":
            k = peek(); pos[0] += 1
            if k == "I": w = until("("); return ("AI", w, lst(lambda: int(until(";)"))))
            if k == "F": return ("AF", lst(lambda: (eat("f"), flt())[1]))
            if k == "S": return ("AS", lst(lambda: (eat("s"), bytes.fromhex(until(";)")).decode())[1]))
            if k == "B":
                def b():
                    d = peek(); pos[0] += 1; return d == "1"
                return ("AB", lst(b))
            if k == "N": eat("("); t = until(")"); eat(")"); return ("AN", int(t))
            if k == "O": return ("AO", lst(value))
        raise ValueError(src[:60])
    v = value()
    assert pos[0] == len(src)
    return v


def strings(t):
    k = t[0]
    if k == "S": yield t[1]
    elif k == "O":
        for _, v in t[1]: yield from strings(v)
    elif k == "AS": yield from t[1]
    elif k == "AO":
        for x in t[1]: yield from strings(x)


def expected(t, field=True):
    """what the runners print for a faithful read-back"""
    k = t[0]
    if k == "F": return "f" + (rust_debug(t[1]) if field else rust_display(t[1]))
    if k == "O": return "O(" + ",".join(n + "=" + expected(v) for n, v in t[1]) + ")"
    if k == "AF": return "AF(" + ";".join("f" + ("0.0" if x == 0 else rust_display(x)) for x in t[1]) + ")"
    if k == "AO": return "AO(" + ";".join(expected(x) for x in t[1]) + ")"
    return enc(t)


def same_meaning(a, b):
    """a: what json.loads gave, b: pyvalue(tree). Numbers compare as the nearest double where the tree holds a float"""
    if isinstance(b, bool) or isinstance(a, bool): return type(a) is type(b) and a == b
    if isinstance(b, float): return isinstance(a, (int, float)) and float(a) == b
    if isinstance(b, int): return isinstance(a, int) and a == b
    if isinstance(b, dict): return isinstance(a, dict) and a.keys() == b.keys() and all(same_meaning(a[k], b[k]) for k in b)
    if isinstance(b, list): return isinstance(a, list) and len(a) == len(b) and all(same_meaning(x, y) for x, y in zip(a, b))
    return a == b


def pyvalue(t):
    """the meaning an independent JSON reader must give the text (a null field is not written at all)"""
    k = t[0]
    if k in ("S", "B", "I", "F"): return t[1]
    if k == "O": return {n: pyvalue(v) for n, v in t[1] if v[0] != "N"}
    if k == "AI": return list(t[2])
    if k in ("AF", "AS", "AB"): return list(t[1])
    if k == "AN": return [None] * t[1]
    if k == "AO": return [pyvalue(x) for x in t[1]]
    raise ValueError(k)


PLAIN = "abcdefghijklmnopqrstuvwxyzABCXYZ0123456789 _-.;!?#$%&'()*+/<=>@^`|~"
STRUCT = "{}[],:"
NONASCII = "é日本ßж😀"


def gen_string(rnd, cls=None):
    cls = cls or rnd.choices(["plain", "edge", "struct", "nonascii"], [60, 15, 15, 10])[0]
    if cls == "edge":
        return rnd.choice(["", " ", "  lead", "trail  ", "null", "true", "false", "-5", "0", "1.5e3", "a  b", "x" * 200]), cls
    n = rnd.choice([1, 2, 3, 5, 8, 13, 40])
    alpha = PLAIN if cls == "plain" else PLAIN + STRUCT * 3 if cls == "struct" else PLAIN + NONASCII * 4
    s = "".join(rnd.choice(alpha) for _ in range(n))
    if cls == "struct" and not any(c in STRUCT for c in s): s += rnd.choice(STRUCT)
    if cls == "nonascii" and s.isascii(): s += rnd.choice(NONASCII)
    return s, cls


def gen_int(rnd, lo=I128_MIN, hi=I128_MAX):
    r = rnd.random()
    if r < 0.15: return rnd.choice([lo, hi, 0, max(lo, -1), min(hi, 1), lo + 1 if lo < 0 else 0, hi - 1])
    if r < 0.55: return max(lo, min(hi, rnd.randint(-1000, 1000)))
    bits = rnd.randint(1, 128)
    return max(lo, min(hi, rnd.randint(-(2 ** bits), 2 ** bits)))


def gen_float(rnd):
    r = rnd.random()
    if r < 0.2: return rnd.choice([0.0, -0.0, 1.0, -1.0, 2.0, 10.0, 1e15, 1e16, 1e21, 1e22, 123456789.0, -3.0, 1e300, 1.7976931348623157e308])
    if r < 0.35: return rnd.choice([0.1 + 0.2, 1 / 3, 5e-324, 2.2250738585072014e-308, 1e-7, 1.5e-5, 0.0001, 0.00009999, 9007199254740993.0, 0.1, -2.5])
    if r < 0.6: return round(rnd.uniform(-1000, 1000), rnd.choice([0, 1, 2, 5]))
    if r < 0.8: return rnd.uniform(-1, 1) * 10 ** rnd.randint(-300, 300)
    import struct
    while True:
        x = struct.unpack("<d", struct.pack("<Q", rnd.getrandbits(64)))[0]
        if math.isfinite(x): return x


def repeats(rnd, xs):
    """elements that occur more than once: the last one again in the middle, the first one again at the end, all equal"""
    if len(xs) >= 2 and rnd.random() < 0.35:
        m = rnd.random()
        if m < 0.4: xs[rnd.randrange(len(xs) - 1)] = xs[-1]
        elif m < 0.7: xs[-1] = xs[0]
        else: xs = [xs[0]] * len(xs)
    return xs


def gen_array(rnd, depth, stats):
    n = rnd.choice([0, 0, 1, 1, 2, 3, 5, 17, 64])
    k = rnd.choice(["AI", "AI", "AF", "AS", "AB", "AN", "AO"] if depth > 0 else ["AI", "AI", "AF", "AS", "AB", "AN"])
    if k == "AI":
        w = rnd.choice(list(WIDTHS)); lo, hi = WIDTHS[w]
        return ("AI", w, repeats(rnd, [gen_int(rnd, lo, hi) for _ in range(n)]))
    if k == "AF": return ("AF", repeats(rnd, [gen_float(rnd) for _ in range(n)]))
    if k == "AS":
        xs = []
        for _ in range(n):
            s, c = gen_string(rnd); stats["str_" + c] = stats.get("str_" + c, 0) + 1; xs.append(s)
        return ("AS", repeats(rnd, xs))
    if k == "AB": return ("AB", [rnd.random() < 0.5 for _ in range(n)])
    if k == "AN": return ("AN", n)
    n = min(n, 5)
    tmpl = gen_object(rnd, depth - 1, stats)
    out = [tmpl]
    for _ in range(max(0, n - 1)):
        out.append(reshuffle(rnd, tmpl, stats))
    return ("AO", out[:n] if n else [])


def reshuffle(rnd, t, stats):
    """same shape (names, kinds, null positions), fresh scalar values"""
    k = t[0]
    if k == "S": return ("S", gen_string(rnd)[0])
    if k == "B": return ("B", rnd.random() < 0.5)
    if k == "I": return ("I", gen_int(rnd))
    if k == "F": return ("F", gen_float(rnd))
    if k == "O": return ("O", [(n, reshuffle(rnd, v, stats)) for n, v in t[1]])
    return t


def gen_object(rnd, depth, stats):
    nf = rnd.choice([0, 1, 2, 3, 4, 6, 9])
    fs = []
    for i in range(nf):
        name = rnd.choice(["a", "b", "key", "prop_a", "x1", "value", "id", "n", "t", "f"]) + str(i)
        r = rnd.random()
        if r < 0.22:
            s, c = gen_string(rnd); stats["str_" + c] = stats.get("str_" + c, 0) + 1; v = ("S", s)
        elif r < 0.34: v = ("B", rnd.random() < 0.5)
        elif r < 0.52: v = ("I", gen_int(rnd))
        elif r < 0.70: v = ("F", gen_float(rnd))
        elif r < 0.77: v = ("N",)
        elif r < 0.87 and depth > 0: v = gen_object(rnd, depth - 1, stats)
        else: v = gen_array(rnd, depth, stats)
        fs.append((name, v))
    return ("O", fs)


def classes(t, inside=None, out=None):
    """feature classes of a tree, used to recognise the known finding classes:
       nonascii = a string outside ASCII; struct_nested = a string with { } [ ] inside a nested object or an array element of an array field ..."""
    out = out if out is not None else set()
    k = t[0]
    if k == "S":
        s = t[1]
        if not s.isascii(): out.add("nonascii")
        if any(c in s for c in "{}"): out.add("brace_in_" + (inside or "top"))
        if any(c in s for c in "[]"): out.add("bracket_in_" + (inside or "top"))
        if "," in s: out.add("comma_in_" + (inside or "top"))
        if ":" in s: out.add("colon_in_" + (inside or "top"))
    elif k == "O":
        for n, v in t[1]: classes(v, inside if inside else "top", out) if v[0] not in ("O", "AO", "AS") else classes(v, "nested" if v[0] != "AS" else (inside or "top") + "_array", out)
    elif k == "AS":
        for s in t[1]: classes(("S", s), (inside or "top_array"), out)
    elif k == "AO":
        for x in t[1]: classes(x, "nested", out)
    return out


def depth(t):
    k = t[0]
    if k == "O": return 1 + max([depth(v) for _, v in t[1]] + [0])
    if k == "AO": return 1 + max([depth(v) for v in t[1]] + [0])
    return 0
