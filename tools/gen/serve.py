"""Generator of `serve` cases: document trees x request targets x headers x CORS configuration (DESIGN.md section 5)."""
import binascii

hx = lambda b: binascii.hexlify(b if isinstance(b, (bytes, bytearray)) else b.encode()).decode()
BASE = "@W@"       # replaced by the shard's scratch directory by the runner (same string on both sides)
ABS = "@@W@@ABS@@" # inside hex-encoded fields (paths, link targets, requests): the scratch directory's absolute path WITHOUT its leading slash;
                   # to oracles it is one path component, to the server several - lookups agree because nothing else lives under it
NAMES = ["a.txt", "b.html", "c", "d.tar.gz", "é.png", "x.html", "index.html", "page", "sub", "s2", "style.css", "404.html", "data.bin",
         ".hidden", "a b", "q&r.txt", "up.js", "f.HTML", "noext.", "k.json", "a#f", "m.svg", "v.mp4", "deep", "w.wasm", "t.TXT", "n.tar", "z.min.js",
         "notes..txt", "..rc", "x..", "...", "v1..v2.html", "v1..2", "..d", "rel..", "a..b..c"]      # consecutive dots that are not a parent-directory segment
RANGES = ["bytes=0-", "bytes=2-5", "bytes=-3", "bytes=9-9", "bytes=10-10", "bytes=0-10", "bytes=0-11", "bytes=-11", "bytes=5-2", "bytes=0-0,2-3",
          "bytes= 1 - 2 , 4-4", "bytes=a-b", "bytes=1-18446744073709551615", "bytes=1-18446744073709551616", "bytes=--1", "bytes=", "bytes=,,",
          "items=0-1", "bytes=-0", "bytes=0-1=2-3", "bytes=-18446744073709551615", "bytes=0-0", "bytes=1-1,3-3,5-5", "bytes=-1", "bytes=0-,1-",
          "bytes=0-3, 5000-6000", "bytes=0-0,a-b", "bytes=0-1,9-2", "bytes=0-0,-0", "bytes=0-0,2-2,99999-"]       # several ranges of which a later one is refused
SECRET = b"SECRET-"


class Tree:
    def __init__(self):
        self.ents = []          # ("D", path) | ("F", path, data) | ("L", path, target)
        self.dirs = ["outer", "outer/root"]
    def has(self, p):
        return any(e[1] == p for e in self.ents)
    def spec(self):
        return ",".join(":".join([e[0], hx(e[1])] + ([hx(e[2])] if len(e) > 2 else [])) for e in self.ents) or "-"
    def inroot(self):
        return [e[1][len("outer/root"):] for e in self.ents if e[1].startswith("outer/root/")]


def file_data(rnd, sizes=(0, 1, 2, 10, 10, 300)):
    k = rnd.choice(sizes)
    r = rnd.random()
    if r < 0.15:
        return bytes(range(256)) * (k // 256 + 1) if k else b""
    if r < 0.3:
        return bytes(rnd.choice(b"ab\r\n-\x00") for _ in range(k))
    return bytes(rnd.randrange(256) for _ in range(k))


def gen_tree(rnd, maxents=8, sizes=(0, 1, 2, 10, 10, 300), depth_bias=0.5):
    t = Tree()
    t.ents.append(("D", "outer/root"))
    # uniquely marked secret files at every ancestor level outside the root, and in a sibling directory
    t.ents.append(("F", "secret0.txt", SECRET + b"top"))
    t.ents.append(("F", "outer/secret5.txt", SECRET + b"outer"))
    t.ents.append(("F", "outer/rootx/leak.txt", SECRET + b"sibling"))
    t.ents.append(("F", "outer/root.html", SECRET + b"dot-html-sibling"))
    for _ in range(rnd.randint(0, maxents)):
        inr = [x for x in t.dirs if x.startswith("outer/root")]
        d = inr[-1] if (rnd.random() < depth_bias and len(inr) > 1) else rnd.choice(inr)
        nm = rnd.choice(NAMES)
        p = d + "/" + nm
        if t.has(p):
            continue
        k = rnd.random()
        if k < 0.55:
            t.ents.append(("F", p, file_data(rnd, sizes)))
        elif k < 0.8:
            t.ents.append(("D", p)); t.dirs.append(p)
        else:
            tgt = rnd.choice(["a.txt", "../secret5.txt", "../../secret0.txt", "sub", "../root/a.txt", "nonexist", "/" + ABS + "/outer/secret5.txt", ".",
                              "../rootx", "s2/..", "/", "../" * 12 + ABS + "/outer/secret5.txt", "../" * 6 + "x", "a:b", "x:/a.txt",
                              "./a.txt", "sub/../a.txt"])
            t.ents.append(("L", p, tgt))
    if rnd.random() < 0.1:
        # links whose own path holds several non-ASCII characters (byte length and character count differ), to files next to them
        d = "outer/root/" + rnd.choice(["каталог", "docs-é", "日本語", "a b/ü"])
        for q in [d.rsplit("/", 1)[0], d]:
            par = q.rsplit("/", 1)[0]
            if q != "outer/root" and not t.has(q) and q not in t.dirs and par in t.dirs: t.ents.append(("D", q)); t.dirs.append(q)
        if d in t.dirs:
            if not t.has(d + "/data.txt"): t.ents.append(("F", d + "/data.txt", b"data-next-to-the-link"))
            for ln in ["link.txt", "résumé.html", "ссылка"]:
                if rnd.random() < 0.6 and not t.has(d + "/" + ln): t.ents.append(("L", d + "/" + ln, rnd.choice(["data.txt", "./data.txt"])))
    if rnd.random() < 0.06:
        # a copy, INSIDE the served directory, of the absolute path of the marked file outside it: a target that is that absolute path with one
        # more slash in front must get the inside copy (base + path), never the outside file (a join that lets an absolute path replace the base)
        t.ents.append(("F", "outer/root/" + ABS + "/outer/secret5.txt", b"inside-copy-at-the-mirrored-path"))
    if rnd.random() < 0.1 and not t.has("outer/root/rel") and not t.has("outer/root/latest") and not t.has("outer/notes.txt"):
        # a link to a link: the second one lives in a sub-directory and climbs one level, staying inside the root; resolved from the first
        # link's directory it would name the marked file of the same name one level above the root
        t.ents.append(("D", "outer/root/rel")); t.dirs.append("outer/root/rel")
        if not t.has("outer/root/notes.txt"): t.ents.append(("F", "outer/root/notes.txt", b"public-notes"))
        t.ents.append(("F", "outer/notes.txt", SECRET + b"notes-above-the-root"))
        t.ents.append(("L", "outer/root/rel/current", "../notes.txt"))
        t.ents.append(("L", "outer/root/latest", rnd.choice(["rel/current", "./rel/current"])))
    if rnd.random() < 0.12 and (not t.has("outer/root/sub") or "outer/root/sub" in t.dirs):
        # a link in a subdirectory that climbs one level and stays inside the root: resolved from the wrong base (the root instead of the
        # link's own directory) it would name the marked file one level above the root
        if not t.has("outer/root/sub"):
            t.ents.append(("D", "outer/root/sub")); t.dirs.append("outer/root/sub")
        if rnd.random() < 0.6 and not t.has("outer/root/secret5.txt"):
            t.ents.append(("F", "outer/root/secret5.txt", b"public-inside"))
        if not t.has("outer/root/sub/up.txt"):
            t.ents.append(("L", "outer/root/sub/up.txt", "../secret5.txt"))
    return t


def gen_target(rnd, t):
    inroot = t.inroot()
    r = rnd.random()
    if t.has("outer/root/sub/up.txt") and rnd.random() < 0.5:
        return "/sub/up.txt"
    if t.has("outer/root/" + ABS + "/outer/secret5.txt") and rnd.random() < 0.6:
        return rnd.choice(["//" + ABS + "/outer/secret5.txt", "/" + ABS + "/outer/secret5.txt", "///" + ABS + "/outer/secret5.txt", "/.//" + ABS + "/outer/secret5.txt"])
    if t.has("outer/root/latest") and rnd.random() < 0.5:
        return rnd.choice(["/latest", "/latest", "/rel/current", "/latest?x=1"])
    if rnd.random() < 0.05:
        # siblings whose NAME extends the root's name (outer/rootx, outer/root.html): a path that lost its leading separator names them
        return rnd.choice(["//", "///", "//", "", "/./", "/.//", "//./"]) + rnd.choice(["x/leak.txt", ".html", "x/leak.txt?q=1#f", ".html#x", "x", "x/"])
    htmls = [e[1][len("outer/root"):] for e in t.ents if e[0] == "F" and e[1].startswith("outer/root/") and e[1].endswith(".html") and not e[1].endswith("/index.html")]
    if htmls and rnd.random() < 0.12:
        # the third step of the documented lookup, on its own weight: the page is requested without its ".html"
        return rnd.choice(htmls)[:-5] + rnd.choice(["", "", "", "?x=1", "#top"])
    dotted = [x for x in inroot if ".." in x]
    if dotted and rnd.random() < 0.4:
        # a harmless name with consecutive dots first, a real climb after it (a check that stops at the first occurrence)
        return rnd.choice(dotted) + "/" + "../" * rnd.choice([1, 2, 2, 3, 4]) + rnd.choice(["secret5.txt", "secret0.txt", "outer/secret5.txt", "rootx/leak.txt", "root.html", "a.txt"])
    if rnd.random() < 0.06:
        # long targets: many harmless segments, then a climb (a scan that stops early, a counter that wraps)
        k = rnd.choice([15, 30, 31, 32, 33, 64, 127, 128, 255, 256, 300])
        filler = rnd.choice(["./", "/", "sub/../", "x/", "./"])
        climb = "../" * rnd.choice([1, 1, 2, 3])
        tail = rnd.choice(["secret5.txt", "secret0.txt", "outer/secret5.txt", "a.txt", "root/a.txt"])
        return "/" + filler * k + climb + tail
    if inroot and r < 0.55:
        files = [e[1][len("outer/root"):] for e in t.ents if e[0] == "F" and e[1].startswith("outer/root/")]
        x = rnd.choice(files) if files and rnd.random() < 0.6 else rnd.choice(inroot)       # regular files first: the serving path, not only the 404 page
        m = rnd.random()
        if m < 0.12: x = x + "/"
        elif m < 0.27 and x.endswith(".html"): x = x[:-5]
        elif m < 0.37: x = x + "?q=1&x=%20"
        elif m < 0.45: x = x + "#frag"
        elif m < 0.5: x = x + "#f?x"
        elif m < 0.55: x = x + "/index.html"
        elif m < 0.58: x = x + "//"
        elif m < 0.61: x = "/" + x
        elif m < 0.64: x = x + "/."
        elif m < 0.67: x = x + "?a=/../b"
        elif m < 0.72: x = x + rnd.choice(["?next=/", "#/", "?return=" + x + "/", "?/", "?a=b/#c/", "?x=.html", "#.html", "?index.html"])    # query or fragment that looks like a path ending
        return x
    if r < 0.82:
        segs = [rnd.choice(["..", ".", "", "sub", "a.txt", "secret0.txt", "secret5.txt", "outer", "root", "rootx", "leak.txt", "%2e%2e", "index.html", "x",
                            "..\\..", "...", ".. ", "%2E%2E%2F", "..;", "s2", "deep"]) for _ in range(rnd.randint(1, 6))]
        return rnd.choice(["/", "/", "", "//", "/./", "/sub/"]) + "/".join(segs)
    return rnd.choice(["/", "x", "?x", "#x", ":80/a.txt", ":x/", "@/a.txt", "/a.txt/.", "http://h/a.txt", "/style.css", "/favicon.svg", "/script.js", "/missing",
                       "/%00", "/é.png", "*", "//", "/..", "/../", "/.", "/?", "/#", "..", "../secret5.txt", "/..\\..\\secret0.txt", "/root.html", "/.html",
                       "localhost/a.txt", "@localhost/../secret5.txt", "/a.txt?..", "/sub/..%2f..%2fsecret5.txt"])


EXTRA_HEADERS = ["Host: localhost", "Host: 127.0.0.1:7878", "User-Agent: Mozilla/5.0 (X11; Linux x86_64)", "Accept: */*", "Accept-Encoding: gzip, deflate, br",
                 "Accept-Language: de-DE,de;q=0.9", "Connection: keep-alive", "Cookie: a=b; c=d", "X-Forwarded-For: 10.0.0.1", "If-None-Match: \"abc\"",
                 "If-Modified-Since: Sat, 29 Oct 1994 19:43:31 GMT", "Cache-Control: no-cache", "Referer: https://foo.example/page?x=1", "X-Empty:", "X-A: é",
                 "Upgrade-Insecure-Requests: 1", "If-Range: \"abc\"", "TE: trailers", "X-Range: bytes=0-0", "X-Origin: https://evil.example",
                 # standard request headers that ask the server for a special treatment it does not give (each is a place where handling might be added)
                 "Expect: 100-continue", "expect: 100-Continue", "Expect: 100-continue", "Transfer-Encoding: chunked", "Connection: close", "Connection: Upgrade",
                 "Upgrade: websocket", "Upgrade: h2c", "HTTP2-Settings: AAMAAABkAAQAAP__", "Trailer: X-Sum", "Max-Forwards: 0", "Pragma: no-cache",
                 "Authorization: Basic dXNlcjpwYXNz", "Proxy-Authorization: Basic eDp5", "Proxy-Connection: keep-alive", "Via: 1.1 proxy.example", "Forwarded: for=192.0.2.1;proto=https",
                 "X-Forwarded-Proto: https", "X-Forwarded-Host: evil.example", "Accept-Charset: utf-8", "DNT: 1", "Sec-Fetch-Mode: cors", "Sec-Fetch-Site: cross-site",
                 "Sec-Fetch-Dest: document", "Sec-GPC: 1", "X-HTTP-Method-Override: DELETE", "X-Method-Override: PUT", "Content-Encoding: gzip", "If-Match: *",
                 "If-None-Match: *", "If-Unmodified-Since: Sat, 29 Oct 1994 19:43:31 GMT", "Date: Sat, 29 Oct 1994 19:43:31 GMT", "Keep-Alive: timeout=5, max=100",
                 "Early-Data: 1", "Prefer: respond-async, wait=10", "Priority: u=1, i", "Save-Data: on", "Sec-CH-UA-Platform: \"Linux\"", "Accept: text/html;q=0.9, */*;q=0.1",
                 "Accept: application/json", "Accept-Encoding: identity;q=0", "Want-Digest: sha-256", "Content-MD5: Q2hlY2sgSW50ZWdyaXR5IQ==", "X-Requested-With: XMLHttpRequest",
                 "Service-Worker: script", "Purpose: prefetch", "X-Real-IP: 203.0.113.7", "Host: evil.example", "Host:", "Content-Type: text/plain", "Content-Length: 0"]


VERSIONS = ["HTTP/1.0", "HTTP/1.0", "HTTP/0.9", "HTTP/2.0", "http/1.1", "Http/1.0", "HTTP/1.1"]


def gen_cors(rnd):
    if rnd.random() < 0.5:
        return "all", None
    origins = rnd.choice(["https://foo.example,https://bar.example", "https://foo.example", "", "a,b", "https://foo.example,,https://bar.example"])
    cfg = [origins, rnd.choice(["true", "false", "", "TRUE"]), rnd.choice(["GET,PUT", "", "POST"]), rnd.choice(["Content-Type,X-A", "", "x-b"]),
           rnd.choice(["X-B", ""]), rnd.choice(["600", "", "abc"])]
    return "off|" + "|".join(hx(x) for x in cfg), origins


def gen_origin(rnd, origins):
    pool = ["https://foo.example", "https://foo", "", "https://evil.example", "https://bar.example", "example", "https://foo.example,https://bar.example",
            "HTTPS://FOO.EXAMPLE", ",", "https://foo.example,", "a", "b", "a,b", "foo.example", "https://foo.example: 8443", "https://bar.example: x", "a: b", " https://foo.example", "https://foo.example "]
    if rnd.random() < 0.04:
        return "https://" + "a" * rnd.choice([3000, 7000, 7600, 9000]) + ".example"          # a reflected value of several kilobytes (still inside the request buffer, or just not)
    return rnd.choice(pool)


def mutate_request(rnd, b):
    """structure-aware damage to a valid request (DESIGN.md section 5, malformed stream)"""
    b = bytearray(b); k = rnd.random()
    if not b:
        return bytes(b)
    if k < 0.2:
        return bytes(b[:rnd.randrange(len(b) + 1)])
    if k < 0.45:
        i = rnd.randrange(len(b)); b[i] = rnd.choice([0, 10, 13, 32, 58, 128, 255, 0xc2, 0xa0, 0xe2, rnd.randrange(256)]); return bytes(b)
    if k < 0.65:
        i = rnd.randrange(len(b)); return bytes(b[:i]) + rnd.choice([b" ", b"\r\n", b": ", b"\xc2\xa0", b"\xe2\x80\xa8", b"\x85", b"\xff", b"\x00", b"\r", b"\n"]) + bytes(b[i:])
    if k < 0.8:
        i = rnd.randrange(len(b)); j = rnd.randrange(i, len(b)); return bytes(b[:i]) + bytes(b[j:])
    if k < 0.9:
        # numeric fields replaced by junk or extremes
        import re
        return re.sub(rb"[0-9]+", lambda m: rnd.choice([b"a", b"-1", b"18446744073709551616", b"99999999999999999999999", b"", b"+7", b" 5"]), bytes(b), count=1)
    return rnd.choice([b"", b"\r\n\r\n", b"GET", b"GET /", b"GET / HTTP/1.1", b"\x00" * 30, b"\xff\xfe", b"GET  / HTTP/1.1\r\n\r\n", b"get / http/1.1\r\n\r\n",
                       b"FOO / HTTP/1.1\r\n\r\n", b"GET / HTTP/3.0\r\n\r\n", b"GET / HTTP/1.1\r\n" + b"a:b\r\n" * rnd.choice([1, 50, 300]) + b"\r\n"])


def serve_case(rnd, kind="serve", tree=None, target=None, method=None, headers=None, cors=None, opts="", body=b"", meta="", raw_req=None):
    t = tree or gen_tree(rnd)
    tg = target if target is not None else gen_target(rnd, t)
    meth = method or rnd.choice(["GET"] * 6 + ["HEAD", "OPTIONS", "POST", "get"])
    if cors is None:
        cors, origins = gen_cors(rnd)
    else:
        origins = None
    hs = list(headers) if headers is not None else []
    if headers is None:
        if rnd.random() < 0.3: hs.append("Range: " + rnd.choice(RANGES))
        if rnd.random() < 0.35: hs.append("Origin: " + gen_origin(rnd, origins))
        if meth == "OPTIONS" and rnd.random() < 0.7: hs += ["Access-Control-Request-Method: PUT", "Access-Control-Request-Headers: " + ("X-A, Content-Type" if rnd.random() < 0.9 else ", ".join("X-H%d" % j for j in range(rnd.choice([300, 600]))))]
    if raw_req is None and rnd.random() < 0.35 and len(body) < 3000:
        # headers every client sends and the server has no use for, before, between and after the ones the case is about
        for _ in range(rnd.randint(1, 3)):
            hs.insert(rnd.randrange(len(hs) + 1), rnd.choice(EXTRA_HEADERS))
    ver = "HTTP/1.1"
    if raw_req is None and rnd.random() < 0.12:
        ver = rnd.choice(VERSIONS)           # every supported version, in either letter case
    if raw_req is None and rnd.random() < 0.12:
        # header names in another letter case (lookups ignore case)
        def recase(h):
            k = h.find(":")
            return h if k <= 0 else rnd.choice([h[:k].lower(), h[:k].upper(), h[:k].swapcase()]) + h[k:]
        hs = [recase(h) for h in hs]
    req = (meth + " " + tg + " " + ver + "\r\n" + "".join(h + "\r\n" for h in hs) + "\r\n").encode("utf-8", "surrogateescape") + body
    if raw_req is not None:
        req = raw_req(req) if callable(raw_req) else raw_req
    line = "%s %s outer/root %s %s %s" % (kind, BASE, cors, t.spec(), hx(req))
    if opts:
        line += " " + opts
    if meta:
        line += " # " + meta
    return line


def parse_case(line):
    """-> dict(kind, cors, tree entries, request bytes, opts) for oracles"""
    from vlib import strip_meta
    f = strip_meta(line).split(" ")
    ents = []
    if f[4] != "-":
        for e in f[4].split(","):
            p = e.split(":")
            ents.append((p[0], bytes.fromhex(p[1]).decode("utf-8", "replace"), bytes.fromhex(p[2]) if len(p) > 2 else b""))
    return {"kind": f[0], "cwdrel": f[2], "cors": f[3], "ents": ents, "req": bytes.fromhex(f[5]), "opts": f[6:]}
