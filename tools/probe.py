#!/usr/bin/env python3
"""dev: run case lines (file or stdin) through the implementation harness and the model runner, print both. usage: tools/probe.py cases.txt"""
import sys, os, tempfile, shutil
sys.path.insert(0, os.path.dirname(os.path.abspath(__file__)))
import vlib
lines = [l.rstrip("\n") for l in (open(sys.argv[1]) if len(sys.argv) > 1 else sys.stdin) if l.strip()]
ie = vlib.build_harness(); me = vlib.build_model_runner()
w = tempfile.mkdtemp(prefix="probe", dir=vlib.B)
try:
    a = vlib.run_impl(ie, lines, w); b = vlib.run_model(me, lines, w)
    for l, x, y in zip(lines, a, b):
        print("case :", l[:300]); print(" impl:", (x or "")[:int(__import__("os").environ.get("PROBE_W","600"))]); print(" model:", (y or "")[:600])
finally:
    shutil.rmtree(w, ignore_errors=True)
