#!/bin/bash
# usage: seedcheck.sh <seed-name> [property ids...]  -- apply a stored seeded change to /repo (or to the copy named by RWS_REPO, so that a
# background sweep that reads /repo is not disturbed), run the quick checks, restore the tree
# prints one line per property: DETECTED (exit 1 + VIOLATION line) or MISSED (exit 0)
name=$1; shift; d=/verif/seeded/$name
props="$@"; [ -z "$props" ] && props=$(python3 -c "import json;print(json.load(open('$d/meta.json'))['property'])")
cd /verif
R=${RWS_REPO:-/repo}; export RWS_REPO=$R
[ -z "$(git -C $R status --porcelain -- src)" ] || { echo "$R is not clean"; exit 2; }
git -C $R apply $d/patch.diff || { echo "patch does not apply"; exit 2; }
for p in $props; do
  out=$(./check $p ${TIER:-quick} 2>&1); rc=$?
  v=$(echo "$out" | grep -m1 '^VIOLATION')
  if [ $rc -ne 0 ] && [ -n "$v" ]; then echo "$name $p DETECTED rc=$rc :: $v"; [ -n "$KEEP" ] && cp $(echo "$v" | sed 's/.*replay=\([^ ]*\).*/\1/') $d/replay-$p.json 2>/dev/null
  else echo "$name $p MISSED rc=$rc :: $(echo "$out" | tail -1 | cut -c1-200)"; fi
done
git -C $R checkout -- . ; git -C $R status --porcelain -- src | head -3
