#!/usr/bin/env python3
"""Regenerate MANIFEST.json from the property modules present in tools/props (keeps it valid at all times)."""
import json, os, sys, importlib, glob
sys.path.insert(0, os.path.dirname(os.path.abspath(__file__)))
V = os.path.dirname(os.path.dirname(os.path.abspath(__file__)))
props = json.loads("[" + ",".join(l for l in open(V + "/properties.jsonl") if l.strip()) + "]")
TEXT = json.load(open(V + "/tools/manifest_text.json"))
hooks = json.load(open(V + "/tools/hooks.json"))
checks, claimed = [], []
for p in props:
    pid = p["id"]
    if not os.path.exists(V + "/tools/props/%s.py" % pid.lower()) or pid not in TEXT:
        continue
    t = TEXT[pid]
    claimed.append(pid)
    checks.append({"property_id": pid, "quick_cmd": "./check %s quick" % pid, "thorough_cmd": "./check %s thorough" % pid,
                   "evidence_file": "evidence/%s.json" % pid, "replay_cmd_template": "./check %s --replay {path}" % pid,
                   "engine": "coq-development",
                   "level_claimed": {"category": "proof", "text": t["text"], "design_ref": "DESIGN.md section 7, " + pid},
                   "level_note": t["note"], "technique": t["technique"]})
na = [{"property_id": p["id"], "reason": TEXT.get("_not_yet", "check not built yet in this snapshot of /verif (work in progress; no technique switch)")}
      for p in props if p["id"] not in claimed]
m = {"version": 1, "setup_cmd": "./check --setup", "hooks": hooks,
     "engines": [
         {"name": "coq-development", "path": "coq/", "serves_properties": claimed, "kind_free_text": "Gallina model of rws + theorems (Coq 8.16.1); tables under coq/generated are regenerated from /repo on every run"},
         {"name": "model-runner", "path": "ocaml/driver.ml", "serves_properties": claimed, "kind_free_text": "the model extracted to OCaml (ExtrOcamlBasic only), run on case lines"},
         {"name": "impl-runner", "path": "harness/", "serves_properties": claimed, "kind_free_text": "Rust crate that #[path]-includes /repo/src (current working tree), run on the same case lines"},
         {"name": "translator", "path": "tools/", "serves_properties": claimed, "kind_free_text": "regex translators and source scanners /repo -> coq/generated/*.v, fail-closed"}],
     "checks": checks, "not_applicable": na, "notes": "see DESIGN.md; known findings in known_findings.txt"}
json.dump(m, open(V + "/MANIFEST.json", "w"), indent=1)
print("claimed:", claimed)
