#!/usr/bin/env python3
"""Emit Coq byte-string constants for every `pub const X: &'static str = "..."` of selected rws modules."""
import re, sys
repo = sys.argv[1]
mods = {"Hd": "src/header/mod.rs", "Ch": "src/client_hint/mod.rs", "Co": "src/cors/mod.rs", "Rg": "src/range/mod.rs",
        "Mt": "src/mime_type/mod.rs", "Cfg": "src/entry_point/mod.rs", "Rq": "src/request/mod.rs"}
def cstr(s): return "[" + ";".join(str(b) for b in s.encode()) + "]"
def unesc(s): return bytes(s, "utf-8").decode("unicode_escape").encode("latin-1").decode("utf-8")
print("(* GENERATED — do not edit *)\nFrom Coq Require Import List NArith. Import ListNotations. Open Scope N_scope.")
for pre, path in mods.items():
    src = open(repo + "/" + path).read()
    for name, val in re.findall(r'pub const (\w+): &\'static str = "((?:[^"\\]|\\.)*)";', src):
        print("Definition %s_%s : list N := %s. (* %s *)" % (pre, name.strip('_'), cstr(unesc(val)), val.replace("*)", "* )")))
# struct-literal constant tables: METHOD, VERSION, SYMBOL, STATUS_CODE_REASON_PHRASE
src = open(repo + "/src/request/mod.rs").read()
blk = re.search(r'pub const METHOD: Method = Method \{(.*?)\};', src, re.S).group(1)
print("Definition method_list : list (list N) := [%s]." % "; ".join(cstr(v) for _, v in re.findall(r'(\w+): "([^"]*)"', blk)))
src = open(repo + "/src/http/mod.rs").read()
blk = re.search(r'pub const VERSION: Version = Version \{(.*?)\};', src, re.S).group(1)
print("Definition version_list : list (list N) := [%s]." % "; ".join(cstr(v) for _, v in re.findall(r'(\w+): "([^"]*)"', blk)))
src = open(repo + "/src/response/mod.rs").read()
blk = re.search(r'pub const STATUS_CODE_REASON_PHRASE: ResponseStatusCodeReasonPhrase = ResponseStatusCodeReasonPhrase \{(.*?)\n\};', src, re.S).group(1)
pairs = re.findall(r'(\w+): &StatusCodeReasonPhrase \{\s*status_code: &(\d+),\s*reason_phrase: "([^"]*)"\s*\}', blk)
print("Definition status_table : list (N * list N) := [%s]." % ";\n  ".join("(%s, %s) (* %s *)" % (c, cstr(p), p) for _, c, p in pairs))
lst = re.search(r'pub fn status_code_reason_phrase_list\(\).*?vec!\[(.*?)\];', src, re.S).group(1)
order = re.findall(r'STATUS_CODE_REASON_PHRASE\.(\w+)', lst)
names = [n for n, _, _ in pairs]
assert order == names, "status list order differs from the table"
sys.stderr.write("statuses=%d\n" % len(pairs))
