#!/usr/bin/env python3
"""GenFsCalls: every file-system / process / environment primitive named in rws's non-test source, with file-ext
functions expanded to the std primitives their bodies (transitively) use.  Fail-closed."""
import re, sys, glob, os
repo = sys.argv[1]
lock = open(repo + "/Cargo.lock").read()
ver = re.search(r'name = "file-ext"\nversion = "([^"]+)"', lock).group(1)
fe_root = glob.glob("/root/.cargo/registry/src/*/file-ext-%s/src" % ver)
assert len(fe_root) == 1, fe_root
fe_root = fe_root[0]

STD_PRIMS = [  # (regex, primitive, mutating?)
 (r'\bFile::open\b', 'Open', False), (r'\bFile::create\b', 'Create', True), (r'\bOpenOptions\b', 'OpenWrite', True),
 (r'\bfs::metadata\b|\bmetadata\(', 'Metadata', False), (r'\bsymlink_metadata\b', 'LMetadata', False), (r'\bread_link\b', 'ReadLink', False),
 (r'\bread_to_end\b|\bread_to_string\b|\.read\(', 'Read', False), (r'\bfs::read_dir\b', 'ReadDir', False),
 (r'\bwrite_all\b|\bfs::write\b', 'Write', True), (r'\bfs::remove_file\b', 'RemoveFile', True), (r'\bfs::remove_dir(_all)?\b', 'RemoveDir', True),
 (r'\bfs::create_dir(_all)?\b', 'CreateDir', True), (r'\bfs::rename\b', 'Rename', True), (r'\bfs::copy\b', 'Copy', True),
 (r'\bhard_link\b', 'HardLink', True), (r'\bsoft_link\b', 'Symlink', True), (r'\bFile::create_new\b|\bFile::options\b', 'OpenWrite', True),
 (r'\.set_len\(|\.set_modified\(|\.set_times\(', 'Chmod', True), (r'\bDirBuilder\b', 'CreateDir', True),
 (r'\bsymlink(_file|_dir)?\(', 'Symlink', True), (r'\bset_permissions\b', 'Chmod', True), (r'\bCommand::new\b', 'Spawn', True),
 (r'\benv::set_var\b|\benv::remove_var\b', 'EnvWrite', True), (r'\benv::set_current_dir\b', 'Chdir', True),
 (r'\benv::current_dir\b', 'CurrentDir', False), (r'\benv::var\b|\benv::args\b', 'EnvRead', False),
 (r'\.is_file\(\)|\.is_dir\(\)|\.is_symlink\(\)|\.exists\(\)', 'Metadata', False), (r'\.seek\(', 'Seek', False), (r'\.modified\(\)', 'Metadata', False),
]
# every name of std::fs that the source imports or spells as fs::name must be known here (fail-closed); a mutating free function that is
# imported by name is recognised when it is called bare (`use std::fs::{hard_link}; ... hard_link(a, b)`)
FS_READ = {'File', 'metadata', 'Metadata', 'read_dir', 'ReadDir', 'DirEntry', 'FileType', 'read_to_string', 'read', 'canonicalize', 'symlink_metadata', 'read_link', 'try_exists'}
FS_MUT = {'copy': 'Copy', 'create_dir': 'CreateDir', 'create_dir_all': 'CreateDir', 'hard_link': 'HardLink', 'soft_link': 'Symlink', 'remove_dir': 'RemoveDir',
          'remove_dir_all': 'RemoveDir', 'remove_file': 'RemoveFile', 'rename': 'Rename', 'set_permissions': 'Chmod', 'write': 'Write', 'OpenOptions': 'OpenWrite',
          'DirBuilder': 'CreateDir', 'Permissions': 'Chmod'}
def fs_imports(src, rel):
    """names imported from std::fs (and std::os::unix::fs) into this file -> {local name: std name}"""
    out = {}
    for m in re.finditer(r'\buse\s+std::(?:os::\w+::)?fs::(\{[^}]*\}|[\w:]+(?:\s+as\s+\w+)?|\*)\s*;', src):
        g = m.group(1)
        if g == '*': sys.exit("scan_fs: glob import of std::fs in %s" % rel)
        for item in (g.strip('{}').split(',') if g.startswith('{') else [g]):
            item = item.strip()
            if not item or item == 'self': continue
            mm = re.fullmatch(r'(\w+)(?:\s+as\s+(\w+))?', item)
            if not mm: sys.exit("scan_fs: import shape not understood in %s: %s" % (rel, item))
            out[mm.group(2) or mm.group(1)] = mm.group(1)
    return out
FORBIDDEN = [r'\bunsafe\b', r'\bextern\s+"C"', r'\blibc::', r'\binclude!\(']
# a new dependency could bring file-system effects the scan does not see: the dependency list is pinned
cargo = open(repo + "/Cargo.toml").read()
deps = sorted(re.findall(r'^([A-Za-z0-9_-]+)\s*=', cargo[cargo.index("[dependencies]"):], re.M))
if deps != ["file-ext", "url-build-parse", "url-search-params"]:
    sys.exit("scan_fs: dependency list changed: %s" % deps)

sys.path.insert(0, os.path.dirname(os.path.abspath(__file__)))
from rustlex import clean
def strip_comments(src): return clean(src)      # string-aware: a // inside "http://" is not a comment
def functions(src):
    """yield (name, body) for every fn with a body, by brace matching"""
    for m in re.finditer(r'\bfn\s+(\w+)\s*(?:<[^>]*>)?\s*\(', src):
        i = src.find('{', m.end())
        semi = src.find(';', m.end())
        if i < 0 or (0 <= semi < i): continue
        depth, j = 0, i
        while j < len(src):
            if src[j] == '{': depth += 1
            elif src[j] == '}':
                depth -= 1
                if depth == 0: break
            j += 1
        yield m.group(1), src[i:j+1], m.start()

# ---- file-ext: function -> primitives, transitively ----
fe_funcs = {}
for path in glob.glob(fe_root + "/**/*.rs", recursive=True):
    if path.endswith("tests.rs"): continue
    src = strip_comments(open(path).read())
    for pat in FORBIDDEN:
        if re.search(pat, src): sys.exit("scan_fs: forbidden construct %s in %s" % (pat, path))
    for name, body, _ in functions(src):
        fe_funcs.setdefault(name, []).append(body)
def fe_prims(name, seen=None):
    seen = seen or set()
    if name in seen or name not in fe_funcs: return set()
    seen.add(name); out = set()
    for body in fe_funcs[name]:
        for rx, prim, _ in STD_PRIMS:
            if re.search(rx, body): out.add(prim)
        for callee in re.findall(r'(?:Self|FileExt|\w+Impl|DateTimeExt|FilterString)::(\w+)\s*\(', body):
            if callee != name: out |= fe_prims(callee, seen)
    return out

# ---- rws non-test source ----
STARTUP = [r'^src/entry_point/', r'^src/main\.rs$']
STARTUP_FNS = {('src/server/mod.rs', 'setup'), ('src/log/mod.rs', 'info'), ('src/log/mod.rs', 'usage_information')}
rows = []
for path in sorted(glob.glob(repo + "/src/**/*.rs", recursive=True)):
    rel = os.path.relpath(path, repo)
    if re.search(r'(^|/)tests(\.rs|/)|/example|/test/|example_', rel): continue
    src = strip_comments(open(path).read())
    src = re.sub(r'#\[cfg\(test\)\]\s*(pub\s+)?mod\s+\w+;', '', src)
    for pat in FORBIDDEN:
        if re.search(pat, src): sys.exit("scan_fs: forbidden construct %s in %s" % (pat, rel))
    imported = fs_imports(src, rel)
    for loc, std in imported.items():
        if std not in FS_READ and std not in FS_MUT and std not in ('symlink', 'MetadataExt', 'PermissionsExt', 'OpenOptionsExt', 'FileExt'):
            sys.exit("scan_fs: unknown std::fs name %s imported in %s" % (std, rel))
    for std in re.findall(r'\bfs::(\w+)', src):
        if std not in FS_READ and std not in FS_MUT:
            sys.exit("scan_fs: unknown std::fs name fs::%s in %s" % (std, rel))
    for fname, body, fstart in functions(src):
        startup = any(re.search(p, rel) for p in STARTUP) or (rel, fname) in STARTUP_FNS
        prims = set()
        # a write through the connection parameter `stream: impl Read + Write` is a socket write, not a file write;
        # anything else named write_all / fs::write stays a file write (fail-closed)
        sig = src[fstart:src.find('{', fstart)]
        body_scan = body
        if re.search(r'\bstream\s*:\s*impl\s+Read\s*\+\s*Write', sig):
            body_scan, nnet = re.subn(r'\bstream\s*\.\s*write_all\b', 'stream.NETWRITE', body)
            if nnet: prims.add('NetWrite')
        for rx, prim, _ in STD_PRIMS:
            if re.search(rx, body_scan): prims.add(prim)
        for loc, std in imported.items():
            if std in FS_MUT and re.search(r'(?<![\w:.])%s\s*\(' % re.escape(loc), body_scan): prims.add(FS_MUT[std])
        for f in re.findall(r'\bFileExt::(\w+)\s*\(', body):
            if f not in fe_funcs: sys.exit("scan_fs: unknown FileExt::%s in %s" % (f, rel))
            prims |= fe_prims(f)
        for p in sorted(prims): rows.append((rel, fname, p, startup))
mut = {p for _, p, m in STD_PRIMS if m}
print("(* GENERATED by scan_fs.py — do not edit *)\nFrom Coq Require Import List. Import ListNotations.")
allp = sorted({p for _, p, _ in STD_PRIMS} | {'NetWrite'})
print("Inductive fs_prim := %s." % " | ".join("P" + p for p in allp))
print("Definition mutating (p : fs_prim) : bool := match p with %s | _ => false end." % " | ".join("P%s => true" % p for p in sorted(mut)))
print("(* (file, fn, primitive, start-up only) — names as comments *)")
print("Definition request_path_prims : list fs_prim := [\n  %s]." % ";\n  ".join("P%s (* %s::%s *)" % (p, rel, fn) for rel, fn, p, st in rows if not st))
print("Definition startup_prims : list fs_prim := [\n  %s]." % ";\n  ".join("P%s (* %s::%s *)" % (p, rel, fn) for rel, fn, p, st in rows if st))
sys.stderr.write("request-path rows=%d startup rows=%d; mutating on request path: %s\n" % (sum(1 for r in rows if not r[3]), sum(1 for r in rows if r[3]), sorted({p for rel, fn, p, st in rows if not st and p in mut})))
