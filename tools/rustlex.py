"""string-aware removal of Rust comments (a // inside "http://" is not a comment); optionally empties string / char literals"""
import re

def clean(src, empty_literals=False):
    out, i, n = [], 0, len(src)
    while i < n:
        c = src[i]
        if src.startswith("//", i):
            j = src.find("\n", i); i = n if j < 0 else j
        elif src.startswith("/*", i):
            j = src.find("*/", i + 2); i = n if j < 0 else j + 2
        elif c == '"':
            j = i + 1
            while j < n and src[j] != '"':
                j += 2 if src[j] == "\\" else 1
            out.append('""' if empty_literals else src[i:j + 1]); i = j + 1
        elif c == "'":
            m = re.match(r"'(?:[^'\\\n]|\\(?:x[0-9a-fA-F]{2}|u\{[0-9a-fA-F]+\}|.))'", src[i:])
            if m:
                out.append("' '" if empty_literals else m.group(0)); i += m.end()
            else:
                out.append(c); i += 1            # a lifetime
        else:
            out.append(c); i += 1
    return "".join(out)
