"""Independent strict HTTP/1.1 response parser (oracle side) and the canonical form used to diff model and implementation."""
import re

VOLATILE = ("Date-Unix-Epoch-Nanos", "Last-Modified-Unix-Epoch-Nanos")
TOKEN = re.compile(rb"^[!#$%&'*+\-.^_`|~0-9A-Za-z]+$")
# IANA registry (status code -> reason phrase) for the codes rws registers; the spec side of C05/C15
IANA = {200: "OK", 204: "No Content", 206: "Partial Content", 400: "Bad Request", 404: "Not Found", 416: "Range Not Satisfiable",
        500: "Internal Server Error", 501: "Not Implemented"}


def split_head(raw):
    i = raw.find(b"\r\n\r\n")
    if i < 0:
        return None
    return raw[:i], raw[i + 4:]


def parse_response(raw):
    """-> dict(status, reason, headers=[(name, value)], body) or None when the framing is broken (strict)"""
    sp = split_head(raw)
    if sp is None:
        return None
    head, body = sp
    lines = head.split(b"\r\n")
    m = re.match(rb"^HTTP/1\.1 ([0-9]{3}) ([^\r\n]*)$", lines[0])
    if not m:
        return None
    hs = []
    for l in lines[1:]:
        if b"\r" in l or b"\n" in l:
            return None
        k = l.find(b":")
        if k <= 0:
            return None
        name, value = l[:k], l[k + 1:]
        if not TOKEN.match(name):
            return None
        hs.append((name.decode("latin-1"), value.strip(b" \t").decode("latin-1")))
    return {"status": int(m.group(1)), "reason": m.group(2).decode("latin-1"), "headers": hs, "body": body}


def header(resp, name):
    return [v for n, v in resp["headers"] if n.lower() == name.lower()]


def lenient(raw):
    """the looser split used for diffing (never fails when there is a head)"""
    sp = split_head(raw)
    if sp is None:
        return None
    head, body = sp
    lines = head.split(b"\r\n")
    parts = lines[0].split(b" ", 2)
    code = parts[1] if len(parts) > 1 else b""
    reason = parts[2] if len(parts) > 2 else b""
    hs = []
    for l in lines[1:]:
        k = l.find(b": ")
        hs.append((l[:k], l[k + 2:]) if k >= 0 else (l, b"<nosplit>"))
    return code, reason, hs, body


def canon_serve(out):
    """canonical form of a `serve` result line: status, reason, headers (volatile values blanked), body
    (error-message bodies reduced to MSG because message texts are not modelled; text/plain echo lines sorted)"""
    if out is None:
        return "NONE"
    f = out.split(" ")
    if f[0] in ("PANIC", "CRASH"):
        return f[0]
    if f[0] != "W":
        return out
    raw = bytes.fromhex(f[1]) if len(f) > 1 else b""
    ret = f[2] if len(f) > 2 else ""
    extra = " ".join(f[3:])
    p = lenient(raw)
    if p is None:
        return "NOHEAD %s %s" % (raw.hex(), ret)
    code, reason, hs, body = p
    try:
        st = int(code)
    except ValueError:
        st = 0
    is_msg = st >= 400 and st not in (404, 501)
    if is_msg:
        hs = [(n, v) for n, v in hs if n not in (b"Content-Length", b"Content-Range")]
    hs_s = ";".join((n.decode("latin-1") + ":") if n.decode("latin-1") in VOLATILE else (n.decode("latin-1") + ":" + v.hex()) for n, v in hs)
    is_text = any(n == b"Content-Type" and v == b"text/plain" for n, v in hs)
    if is_msg:
        body_s = "MSG"
    elif is_text and st == 200:
        body_s = b"\r\n".join(sorted(body.split(b"\r\n"))).hex()
    else:
        body_s = body.hex()
    return "S%d %s | %s | %s | %s" % (st, reason.decode("latin-1"), hs_s, body_s, ret)


# char::is_whitespace (White_Space): what str::trim removes.  Python's str.strip() also removes U+001C..U+001F, Rust does not.
RUST_WS = "\t\n\x0b\x0c\r \x85\xa0\u1680\u2000\u2001\u2002\u2003\u2004\u2005\u2006\u2007\u2008\u2009\u200a\u2028\u2029\u202f\u205f\u3000"
def rust_trim(s):
    return s.strip(RUST_WS)


def request_method(req):
    """the method as the parser sees it: the request line is trimmed of Unicode white space (str::trim) before it is split - upper-cased bytes"""
    line = req.split(b"\n")[0].decode("utf-8", "replace")
    return rust_trim(line).split(" ")[0].upper().encode()
