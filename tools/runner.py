#!/usr/bin/env python3
"""One check run for one property (DESIGN.md 2.4 / 6)."""
import os, sys, json, time, random, shutil, glob, collections
from vlib import *

TRUSTED_BASE = [
    "Coq 8.16.1 kernel (coqc, full .vo build via coq_makefile/make; vm_compute used for finite sweeps and table checks; no native_compute)",
    "axioms: none (Print Assumptions of every property theorem must say 'Closed under the global context'; source audit refuses Axiom/Parameter/Admitted/Variable/...)",
    "translator tools/*.py (regex extraction of tables from /repo, fail-closed shape assertions)",
    "extraction: ExtrOcamlBasic (bool/option/list/prod/unit/sumbool mapped to OCaml's; N/positive/Z/nat stay extracted inductives) plus ONE directive, Extract Constant List.rev => \"List.rev\" (stdlib rev is quadratic; equality with rev_append l [] is List.rev_alt); OCaml 4.13.1, ocaml/driver.ml",
    "correspondence harness harness/src/*.rs + tools/gen/*.py (differential testing: bounded by generator quality)",
    "modelled, not verified: rustc/std (str methods, integer/float parsing and printing, mpsc, Mutex, thread), the OS (path resolution, read/write, sockets, scheduler), crates file-ext / url-build-parse / url-search-params as modelled from their source",
]


def corpus_lines(prop_id):
    out = []
    for f in sorted(glob.glob(os.path.join(V, "corpus", prop_id, "*.case"))):
        for l in open(f):
            l = l.rstrip("\n")
            if l and not l.startswith("#"):
                out.append(l)
    return out


def write_replay(prop_id, payload):
    d = os.path.join(B, "replay")
    os.makedirs(d, exist_ok=True)
    p = os.path.join(d, "%s-%d-%d.json" % (prop_id, int(time.time()), os.getpid()))
    json.dump(payload, open(p, "w"), indent=1)
    return p


def run_check(P, tier):
    t0 = time.time()
    seed = int(os.environ.get("VERIF_SEED", "1") or "1")
    rnd = random.Random(seed * 1000003 + sum(map(ord, P.ID)))
    work = os.path.join(B, "work", "%s-%d" % (P.ID, os.getpid()))
    shutil.rmtree(work, ignore_errors=True)
    os.makedirs(work)
    notes = []
    try:
        return _run(P, tier, seed, rnd, work, notes, t0)
    finally:
        shutil.rmtree(work, ignore_errors=True)


def _run(P, tier, seed, rnd, work, notes, t0):
    # ---------------------------------------------------------------- proof side
    with Lock():
        tables = translate()
        targets = list(P.COQ_TARGETS)
        ok_make, make_log, make_s = coq_make(targets, clean=False)
        bad_src = audit_sources()
        assum = audit_theorems(P.ID, P.THEOREMS) if P.THEOREMS else {}
        coqchk = None
        if tier == "thorough" and ok_make and P.THEOREMS and os.environ.get("VERIF_SKIP_COQCHK") != "1":
            rc, out = sh(["timeout", "1500", "coqchk", "-silent", "-o", "-Q", COQ + "/theories", "Rws", "-Q", COQ + "/generated", "Rws",
                          "Rws.Props.%s" % P.ID], timeout=1600)
            coqchk = {"rc": rc, "tail": out.strip()[-400:]}
            if rc != 0:
                notes.append("coqchk failed")
        # the model runner needs Extract.vo; if the model no longer builds the correspondence is void
        runners_ok, runner_err = True, ""
        impl_exe = model_exe = None
        try:
            impl_exe = build_harness()
        except Infra as e:
            print("INFRASTRUCTURE ERROR: %s" % e)
            return 2
        if P.NEEDS_MODEL:
            try:
                model_exe = build_model_runner() if os.path.exists(COQ + "/theories/Extract.vo") else None
            except Infra as e:
                runner_err = str(e)
            if model_exe is None:
                runners_ok = False
    failed_tables = [t for t, r in tables.items() if not r["ok"]]
    discharged = [t for t in P.THEOREMS if assum.get(t, {}).get("status") == "closed"]
    undischarged = [t for t in P.THEOREMS if t not in discharged]
    proof_ok = ok_make and not undischarged and not bad_src and (coqchk is None or coqchk["rc"] == 0)
    broken = []          # names of theorems / tables / correspondences that no longer check
    if not proof_ok:
        broken += ["theorem %s (%s)" % (t, assum.get(t, {}).get("status", "not built")) for t in undischarged]
        broken += ["translator table %s: %s" % (t, tables[t]["msg"]) for t in failed_tables]
        broken += ["source audit: " + b for b in bad_src]
        if not ok_make and not undischarged:
            broken.append("coq build failed: " + make_log.strip()[-300:])
        if coqchk and coqchk["rc"] != 0:
            broken.append("coqchk: " + coqchk["tail"])

    # ---------------------------------------------------------------- correspondence + oracle
    n = P.N_THOROUGH if tier == "thorough" else P.N_QUICK
    corpus = corpus_lines(P.ID)
    cases = corpus + P.gen(rnd, tier, n)
    impl = run_impl(impl_exe, cases, work, sequential=getattr(P, "SEQUENTIAL", False), timeout=getattr(P, "IMPL_TIMEOUT", 900))
    # properties whose model side validates what the implementation did (event traces) derive the model's input from the impl's output
    model_lines = [P.model_input(c, o) for c, o in zip(cases, impl)] if hasattr(P, "model_input") else cases
    model = run_model(model_exe, model_lines, work) if (runners_ok and P.NEEDS_MODEL) else [None] * len(cases)
    extra = P.extra(tier, seed, work, notes) if hasattr(P, "extra") else {"failures": [], "coverage": {}}

    disagreements = []
    model_unavailable = []
    if runners_ok and P.NEEDS_MODEL:
        for i, (a, b) in enumerate(zip(impl, model)):
            if b is not None and b.startswith("MODELCRASH"):
                model_unavailable.append(i)      # the extracted model ran out of time or stack on this case: the case is not compared (infrastructure, counted)
                continue
            ca, cb = P.canon(cases[i], a), (P.canon_model(cases[i], b) if hasattr(P, "canon_model") else P.canon(cases[i], b))
            if ca != cb and ca != "SKIP":
                disagreements.append(i)
        if len(model_unavailable) > max(3, len(cases) // 200):
            raise Infra("the model runner failed on %d of %d cases" % (len(model_unavailable), len(cases)))
    elif P.NEEDS_MODEL:
        broken.append("model runner unavailable: " + runner_err[-200:])

    findings = [f for f in load_findings() if f["property"] == P.ID]
    open_ids = {f["id"] for f in findings if f["status"] == "open"}
    failures = []      # (index, signature, finding id or None)
    for i, a in enumerate(impl):
        sig = P.oracle(cases[i], a)
        if sig:
            fid = P.classify(cases[i], a, sig)
            failures.append((i, sig, fid if fid in open_ids else None))
    if hasattr(P, "group_oracle"):       # oracles that relate several cases (e.g. GET/HEAD/OPTIONS triples)
        for i, sig in P.group_oracle(cases, impl):
            fid = P.classify(cases[i], impl[i], sig)
            failures.append((i, sig, fid if fid in open_ids else None))
    unknown = [(i, s) for i, s, fid in failures if fid is None]
    reproduced = collections.Counter(fid for _, _, fid in failures if fid)
    for d, s, fid, _ in extra["failures"]:
        if fid in open_ids:
            reproduced[fid] += 1
    unknown_extra = [(d, s, pl) for d, s, fid, pl in extra["failures"] if fid not in open_ids]

    # ---------------------------------------------------------------- decision
    violation = None
    if unknown:
        i, s = unknown[0]
        i, s = min(unknown, key=lambda x: len(cases[x[0]]))
        path = write_replay(P.ID, {"property": P.ID, "kind": "oracle failure on the implementation", "signature": s, "case": cases[i],
                                   "impl": impl[i], "model": model[i], "how": "./check %s --replay <this file>" % P.ID,
                                   "other_failures": len(unknown) - 1})
        violation = (path, "")
    elif unknown_extra:
        d, s, pl = unknown_extra[0]
        path = write_replay(P.ID, dict({"property": P.ID, "kind": "oracle failure on the implementation", "signature": s, "what": d}, **pl))
        violation = (path, "")
    elif disagreements or broken:
        # the tie is broken: search the implementation for a concrete failing input
        found = None
        if not broken or True:
            m = getattr(P, 'N_SEARCH', 3 * P.N_QUICK)
            rnd2 = random.Random(seed + 77)
            near = [cases[i] for i in disagreements[:50]]
            extra_cases = P.gen(rnd2, "search", m)
            ex_impl = run_impl(impl_exe, extra_cases, work, sequential=getattr(P, "SEQUENTIAL", False), timeout=getattr(P, "IMPL_TIMEOUT", 900))
            for l, a in zip(near + extra_cases, [impl[i] for i in disagreements[:50]] + ex_impl):
                sig = P.oracle(l, a)
                if sig and P.classify(l, a, sig) not in open_ids:
                    if found is None or len(l) < len(found[0]):
                        found = (l, a, sig)
        if found:
            path = write_replay(P.ID, {"property": P.ID, "kind": "oracle failure on the implementation (found by the search after the tie broke)",
                                       "signature": found[2], "case": found[0], "impl": found[1], "broken": broken,
                                       "disagreements": len(disagreements)})
            violation = (path, "")
        else:
            d0 = min(disagreements, key=lambda i: len(cases[i])) if disagreements else None
            path = write_replay(P.ID, {"property": P.ID, "kind": "proof obligation or correspondence no longer checks; no failing input found",
                                       "no_longer_checks": broken + (["correspondence model<->implementation on %d of %d cases" % (len(disagreements), len(cases))] if disagreements else []),
                                       "disagreeing_case": None if d0 is None else {"case": cases[d0], "impl": impl[d0], "model": model[d0]}})
            violation = (path, " no-failing-input-found")

    # ---------------------------------------------------------------- evidence
    kinds = collections.Counter(P.outcome_class(cases[i], impl[i]) for i in range(len(cases)))
    nontriv = len({strip_meta(cases[i]) for i in range(len(cases)) if P.nontrivial(cases[i], impl[i])})
    samples = []
    seen_cls = set()
    for i in range(len(cases)):
        c = P.outcome_class(cases[i], impl[i])
        if c not in seen_cls and len(samples) < 6:
            seen_cls.add(c)
            samples.append({"case": cases[i][:600], "impl": (impl[i] or "")[:400], "model": (model[i] or "")[:400] if model[i] else None})
    cov = {
        "obligations": max(1, len(P.THEOREMS)), "discharged": len(discharged) if P.THEOREMS else 0,
        "checker_cmd": "make -C coq -j16 %s && coqc Print Assumptions per theorem (tools/vlib.py audit_theorems) && source audit%s"
                       % (" ".join(P.COQ_TARGETS), " && coqchk -o Rws.Props.%s" % P.ID if coqchk else ""),
        "trusted_base": TRUSTED_BASE + list(getattr(P, "TRUSTED_EXTRA", [])),
        "theorems": {t: assum.get(t, {"status": "not built"}) for t in P.THEOREMS},
        "evaluations": len(cases), "distinct_nontrivial": nontriv,
        "rule": P.RULE, "samples": samples,
        "traces_validated_against_impl": (len(cases) - len(disagreements) - len(model_unavailable)) if (runners_ok and P.NEEDS_MODEL) else 0,
        "model_unavailable_cases": len(model_unavailable),
        "disagreements_checked": len(disagreements), "programs": len(cases),
        "outcome_distribution": dict(kinds), "corpus_cases": len(corpus),
        "generated_tables": {t: r["sha"] for t, r in tables.items()},
        "known_findings_reproduced": dict(reproduced),
        "oracle_failures": len(failures) + len(extra["failures"]), "make_seconds": round(make_s, 1),
        "coqchk": coqchk, "notes": notes, "exhaustive": False,
    }
    if hasattr(P, "model_stats") and runners_ok and P.NEEDS_MODEL:
        cov["model_stats"] = P.model_stats(cases, model)
    cov.update(extra["coverage"])
    ev = {"property_id": P.ID, "tier": tier, "seed": seed, "level": "proof", "coverage": cov,
          "assumptions": list(P.ASSUMPTIONS), "wall_s": round(time.time() - t0, 1), "violations": 1 if violation else 0}
    write_if_changed(os.path.join(V, "evidence", P.ID + ".json"), json.dumps(ev, indent=1, ensure_ascii=False) + "\n")

    for f in findings:
        if f["status"] == "open":
            if reproduced.get(f["id"]):
                print("KNOWN-FINDING: property=%s %s %s (reproduced on %d case(s))" % (P.ID, f["id"], f["what"], reproduced[f["id"]]))
            else:
                print("note: listed finding %s was not reproduced in this run (stale entry or not sampled)" % f["id"])
    print("%s %s: %d/%d obligations discharged, %d cases, %d disagreements, %d oracle failures (%d unlisted), %.1fs"
          % (P.ID, tier, len(discharged), len(P.THEOREMS), len(cases), len(disagreements), len(failures) + len(extra["failures"]),
             len(unknown) + len(unknown_extra), time.time() - t0))
    if violation:
        print("VIOLATION property=%s replay=%s%s" % (P.ID, violation[0], violation[1]))
        return 1
    return 0


def replay(P, path):
    pl = json.load(open(path))
    work = os.path.join(B, "work", "replay-%d" % os.getpid())
    os.makedirs(work, exist_ok=True)
    try:
        with Lock():
            impl_exe = build_harness()
            model_exe = build_model_runner() if P.NEEDS_MODEL else None
        line = pl.get("case") or (pl.get("disagreeing_case") or {}).get("case")
        if not line:
            print(json.dumps(pl, indent=1)); return 0
        a = run_impl(impl_exe, [line], work)[0]
        b = run_model(model_exe, [line], work)[0] if model_exe else None
        sig = P.oracle(line, a)
        print("case : %s\nimpl : %s\nmodel: %s\noracle: %s" % (line, a, b, sig or "ok"))
        return 1 if sig else 0
    finally:
        shutil.rmtree(work, ignore_errors=True)
