"""Real-binary campaigns on loopback (C06, C08, C12): start rws from /repo's working tree on a free port and talk to it."""
import os, socket, struct, subprocess, time, signal, tempfile, shutil

VALID = b"GET /a.txt HTTP/1.1\r\nHost: x\r\n\r\n"


def free_port():
    s = socket.socket(); s.bind(("127.0.0.1", 0)); p = s.getsockname()[1]; s.close(); return p


def listening(port):
    """is some socket listening on 127.0.0.1:port (or the wildcard address)?  read from /proc/net/tcp, no connection is made"""
    want = "%04X" % port
    try:
        with open("/proc/net/tcp") as f:
            for line in f.readlines()[1:]:
                p = line.split()
                if len(p) > 3 and p[3] == "0A" and p[1].split(":")[1] == want:
                    return True
        return False
    except OSError:
        # no /proc: fall back to a connection (the first connection is then the probe's)
        try:
            c = socket.create_connection(("127.0.0.1", port), timeout=0.5); c.close(); return True
        except OSError:
            return False


class Server:
    def __init__(self, exe, root, threads=4, extra_args=(), env=None, cwd=None):
        self.port = free_port()
        self.log = open(os.path.join(root, "..", "server-%d.log" % self.port), "wb")
        e = dict(os.environ)
        for k in list(e):
            if k.startswith("RWS_CONFIG_"):
                del e[k]
        e.update(env or {})
        self.p = subprocess.Popen([exe, "-p=%d" % self.port, "-i=127.0.0.1", "-t=%d" % threads] + list(extra_args), cwd=cwd or root, env=e,
                                  stdout=self.log, stderr=subprocess.STDOUT)
        self.threads = threads
        # wait until the port is in LISTEN state WITHOUT connecting: a probe connection would be the server's first connection, and the
        # references "a server that has seen nothing" would all be taken after it (seed C08-f hid behind exactly that)
        dl = time.time() + 20
        while time.time() < dl:
            if listening(self.port):
                return
            if self.p.poll() is not None:
                break
            time.sleep(0.02)
        raise RuntimeError("server did not start")

    def alive(self):
        return self.p.poll() is None

    def stop(self):
        try:
            self.p.kill(); self.p.wait(timeout=5)
        except Exception:
            pass
        self.log.close()

    def conn(self, timeout=3.0):
        c = socket.create_connection(("127.0.0.1", self.port), timeout=timeout)
        c.settimeout(timeout)
        return c

    def request(self, data, timeout=3.0):
        """one connection, one request -> response bytes (b'' when nothing came back), None on connect failure"""
        try:
            c = self.conn(timeout)
        except OSError:
            return None
        try:
            c.sendall(data)
            return recv_all(c, timeout)
        except OSError:
            return b""
        finally:
            c.close()


def recv_all(c, timeout=3.0):
    out = b""
    c.settimeout(timeout)
    try:
        while True:
            b = c.recv(65536)
            if not b:
                break
            out += b
    except (socket.timeout, OSError):
        pass
    return out


def rst_close(c):
    c.setsockopt(socket.SOL_SOCKET, socket.SO_LINGER, struct.pack("ii", 1, 0))
    c.close()


# ---- connection kinds of the C06 histories ----
def k_valid(s):
    r = s.request(VALID); return r is not None and r.startswith(b"HTTP/1.1 200")
def k_garbage(s):
    s.request(b"\xff\xfe\x00garbage\r\n\r\n"); return True
def k_bad_target(s):
    s.request(b"GET x HTTP/1.1\r\n\r\n"); return True
def k_bad_port(s):
    s.request(b"GET :x/ HTTP/1.1\r\n\r\n"); return True
BAD_CL = [b"a", b"-1", b"4611686018427387904", b"9223372036854775807", b"9223372036854775808", b"18446744073709551615", b"18446744073709551616", b"1099511627776", b"2147483648"]
def k_bad_cl(s):
    # junk, and sizes no allocation can satisfy: one connection each
    for v in BAD_CL:
        s.request(b"POST /form-url-encoded-enctype-post-method HTTP/1.1\r\nContent-Length: " + v + b"\r\n\r\nabc")
    return True
def k_range_under(s):
    s.request(b"GET /a.txt HTTP/1.1\r\nRange: bytes=-99999\r\n\r\n"); return True
def k_many_headers(s):
    s.request(b"GET / HTTP/1.1\r\n" + b"a\r\n" * 3000 + b"\r\n"); return True
def k_form_bad(s):
    s.request(b"POST /form-url-encoded-enctype-post-method HTTP/1.1\r\nContent-Type: application/x-www-form-urlencoded\r\n\r\n\xff\xfe"); return True
def k_multipart_inline(s):
    b = b"--B\r\nContent-Disposition: inline\r\n\r\nx\r\n--B"
    s.request(b"POST /form-multipart-enctype-post-method HTTP/1.1\r\nContent-Type: multipart/form-data; boundary=--B\r\n\r\n" + b); return True
def k_early_close(s):
    try:
        c = s.conn(); c.close()
    except OSError:
        pass
    return True
def k_rst_before(s):
    try:
        c = s.conn(); rst_close(c)
    except OSError:
        pass
    return True
def k_rst_after(s):
    try:
        c = s.conn(); c.sendall(VALID); rst_close(c)
    except OSError:
        pass
    return True
def k_half(s):
    try:
        c = s.conn(); c.sendall(b"GET /a.txt HT"); time.sleep(0.02); c.close()
    except OSError:
        pass
    return True
def k_stall_then_close(s):
    try:
        c = s.conn(); time.sleep(0.05); c.close()
    except OSError:
        pass
    return True
def k_no_read(s):
    """send a request and close without reading the answer (write / flush errors on the server side)"""
    try:
        c = s.conn(); c.sendall(b"GET /big.bin HTTP/1.1\r\n\r\n"); rst_close(c)
    except OSError:
        pass
    return True

def k_long_post(s):
    body = b"&".join(b"field%d=SECRET-OF-ANOTHER-CLIENT-%d" % (i, i) for i in range(25))
    s.request(b"POST /form-url-encoded-enctype-post-method HTTP/1.1\r\nContent-Type: application/x-www-form-urlencoded\r\n\r\n" + body); return True
def k_long_garbage(s):
    s.request(b"\xff" * 3000); return True

KINDS = {"long_post": k_long_post, "long_garbage": k_long_garbage, "valid": k_valid, "garbage": k_garbage, "bad_target": k_bad_target, "bad_port": k_bad_port, "bad_cl": k_bad_cl, "range_under": k_range_under,
         "many_headers": k_many_headers, "form_bad": k_form_bad, "multipart_inline": k_multipart_inline, "early_close": k_early_close,
         "rst_before": k_rst_before, "rst_after": k_rst_after, "half": k_half, "stall_close": k_stall_then_close, "no_read": k_no_read}


def stop_rst_cont(s, k=3):
    """connections that are reset before the server accepts them: stop the server, connect + RST k times, continue"""
    os.kill(s.p.pid, signal.SIGSTOP)
    try:
        for _ in range(k):
            try:
                c = socket.create_connection(("127.0.0.1", s.port), timeout=1.0); rst_close(c)
            except OSError:
                pass
        time.sleep(0.05)
    finally:
        os.kill(s.p.pid, signal.SIGCONT)
    time.sleep(0.1)


def capacity_probe(s, deadline=2.0):
    """N connections open at once on an N-worker server; the LAST one is served while the others are still idle
    -> 'ok' | 'dead' (process gone) | 'refused' | 'capacity' (last connection not served: fewer than N workers) | 'wrong'"""
    if not s.alive():
        return "dead"
    n = s.threads
    conns = []
    try:
        for _ in range(n):
            conns.append(s.conn(deadline)); time.sleep(0.01)
    except OSError:
        for c in conns: c.close()
        return "refused" if s.alive() else "dead"
    try:
        last = conns[-1]
        last.sendall(VALID)
        r = recv_all(last, deadline)
        if not r:
            return "capacity"
        if not r.startswith(b"HTTP/1.1 200"):
            return "wrong"
        for c in conns[:-1]:
            c.sendall(VALID)
        for c in conns[:-1]:
            r = recv_all(c, deadline)
            if not r.startswith(b"HTTP/1.1 200"):
                return "wrong"
        return "ok"
    finally:
        for c in conns:
            try: c.close()
            except OSError: pass


def make_root(base):
    root = os.path.join(base, "root")
    os.makedirs(root, exist_ok=True)
    open(os.path.join(root, "a.txt"), "wb").write(b"0123456789")
    open(os.path.join(root, "big.bin"), "wb").write(os.urandom(1 << 20))
    open(os.path.join(root, "index.html"), "wb").write(b"<p>index</p>")
    # a sub-directory with a file of the same name as one in the root, and a relative link to a large file next to it
    sub = os.path.join(root, "sub"); os.makedirs(sub, exist_ok=True)
    open(os.path.join(sub, "a.txt"), "wb").write(b"the other a.txt, in sub")
    open(os.path.join(sub, "big2.bin"), "wb").write(bytes((i * 31 + 7) & 0xff for i in range(1 << 20)))
    if not os.path.lexists(os.path.join(sub, "link.bin")):
        os.symlink("big2.bin", os.path.join(sub, "link.bin"))
    return root
