#!/usr/bin/env python3
"""Write the prompts for one round of seeded changes (DESIGN 15.7): one prompt per property, holding ONLY the property's text, the
scratch worktree, and one-paragraph summaries of the changes earlier rounds already made for that property (so that a new round does
something different).  usage: seedprompt.py <round letter> <worktree prefix, e.g. /tmp/wt8> <out dir>"""
import json, os, sys, glob

ORD = ["FIRST", "SECOND", "THIRD", "FOURTH", "FIFTH", "SIXTH", "SEVENTH", "EIGHTH", "NINTH", "TENTH"]
NUM = ["No", "One", "Two", "Three", "Four", "Five", "Six", "Seven", "Eight", "Nine"]
HERE = os.path.dirname(os.path.dirname(os.path.abspath(__file__)))


def main():
    rnd, prefix, out = sys.argv[1], sys.argv[2], sys.argv[3]
    os.makedirs(out, exist_ok=True)
    props = [json.loads(l) for l in open(os.path.join(HERE, "properties.jsonl")) if l.strip()]
    for p in props:
        pid = p["id"]
        wt = "%s-%s" % (prefix, pid)
        prev = []
        for d in sorted(glob.glob(os.path.join(HERE, "seeded", pid + "-*"))):
            if d.rsplit("-", 1)[1] >= rnd:
                continue
            try:
                m = json.load(open(os.path.join(d, "meta.json")))
            except Exception:
                continue
            prev.append((m.get("summary", "")[:330], ", ".join(m.get("files_changed", []))))
        anchors = p.get("anchors", {})
        atext = "; ".join("%s (%s)" % (a.get("name", ""), a.get("where", "")) if isinstance(a, dict) else str(a)
                          for a in anchors.get("mechanism", []) or [])
        if not atext:
            atext = ", ".join(anchors.get("files", []))
        n = len(prev)
        t = []
        t.append("You are helping to test a verification suite by seeding ONE defect into a codebase. You never see the suite itself.\n")
        t.append("Codebase: rws, a dependency-light HTTP/1.1 static-file web server written in Rust, checked out as a scratch git worktree at %s ." % wt)
        t.append("Work ONLY inside %s. Do not read or write /verif, /repo or /root/.vp (they are off limits for this task). The sandbox has no network; use `--offline` with cargo.\n" % wt)
        t.append("A property that is supposed to hold of this code:\n")
        t.append("  id: %s\n  title: %s\n  statement: %s\n  quantified over: %s\n  code anchors: %s\n" % (pid, p["title"], p["statement"], p["quantifier"]["text"], atext))
        t.append("Your task: make ONE small, realistic, subtle change under %s/src (the kind of regression a maintainer could introduce by accident: an off-by-one, a dropped or weakened check, a reordered condition, a wrong comparison operator, a removed guard, a changed constant, a forgotten case, a refactoring that is almost equivalent) that makes the property FALSE for some input, request sequence or schedule, while" % wt)
        t.append("  (1) the crate still compiles:  cd %s && cargo build --offline" % wt)
        t.append("  (2) the existing test suite passes exactly as on the unchanged tree:  cd %s && cargo nextest run --workspace --no-fail-fast --offline   must report 470 passed, 1 failed, and the one failing test must be entry_point::command_line_args::tests::parse_long_form (it fails on the unchanged tree too). Do not edit, add or delete tests." % wt)
        t.append("Make it narrow, not loud: prefer a change that misbehaves only on a specific class of inputs (not \"always panic\", not \"always 500\"). Do not add comments that point at the defect.\n")
        if n:
            t.append("IMPORTANT - this is a %s round. %s colleagues already seeded the changes below, so do something DIFFERENT in kind from all of them, in another function or file if you can, hitting another clause of the property, another code path (the legacy entry point `*_request`, another controller, the writer instead of the reader, start-up instead of request handling, a helper in src/ext or in a vendored-style module under src/ that the anchored code calls), or an edge of the input domain nobody looks at (empty, maximal, boundary lengths such as exactly the buffer size, repeated headers, mixed letter case, non-ASCII, unusual but legal spellings, combinations of two features that are each handled alone). Look for a place where the existing tests are thin." % (ORD[n] if n < len(ORD) else "LATER", NUM[n] if n < len(NUM) else str(n)))
            for i, (s, f) in enumerate(prev, 1):
                t.append("  already tried (%d): %s (files: %s)" % (i, s, f))
            t.append("")
        t.append("Then demonstrate the violation against the modified code with a concrete input: write %s/demo.sh (bash, may call python3; e.g. build the binary with cargo build --offline, start %s/target/debug/rws with --ip=127.0.0.1 --port=<free port> in a scratch directory, talk to it over a loopback socket, kill it; or, for library-level functions, a tiny throw-away cargo project elsewhere under /tmp that includes the module files with #[path]), run it, and save what it prints to %s/demo_output.txt . The output must show the input, what the property requires, and what the modified code did instead.\n" % (wt, wt, wt))
        t.append("Deliverables, all inside %s:" % wt)
        t.append("  - the source change, left UNCOMMITTED (so that `git -C %s diff -- src` shows exactly it; do not commit, do not touch anything outside src/ except the three files named here)" % wt)
        t.append("  - demo.sh and demo_output.txt")
        t.append("  - meta.json : {\"property\": \"%s\", \"files_changed\": [...], \"summary\": \"...\", \"failing_input\": \"...\", \"expected\": \"...\", \"observed\": \"...\", \"why_existing_tests_still_pass\": \"...\"}" % pid)
        t.append("Remove any scratch projects you created under /tmp (other than %s) and any target directory you do not need when you are done; kill any server you started (by its pid, never with pkill -f or killall)." % wt)
        t.append("Final answer: five lines at most - the change, the failing input, expected vs observed, and the test-suite result you saw.")
        open(os.path.join(out, "%s-%s.txt" % (pid, rnd)), "w").write("\n".join(t) + "\n")
    print("wrote", len(props), "prompts to", out)


if __name__ == "__main__":
    main()
