#!/usr/bin/env python3
"""Translator: the Unicode case mappings of the toolchain's std (char::to_lowercase / to_uppercase for every scalar value outside ASCII), as
two Coq tables keyed by UTF-8 byte sequences, plus the two character classes of the final-sigma rule of str::to_lowercase as ranges of code points -> coq/generated/GenUnicase.v (on stdout).  The tables depend on the toolchain that compiles
/repo, not on /repo's source; they are produced by compiling and running tools/unicase/unicase.rs with that toolchain and cached per
`rustc --version`.  Fails closed: a toolchain without the dumper's output, a failed self-check of the dumper (per-character mapping against
str::to_lowercase / to_uppercase in context) or an empty table is an error."""
import sys, os, subprocess, hashlib
V = os.path.dirname(os.path.dirname(os.path.abspath(__file__)))
B = os.path.join(V, ".build")
os.makedirs(B, exist_ok=True)
ver = subprocess.run(["rustc", "--version"], stdout=subprocess.PIPE, check=True).stdout.decode().strip()
src = os.path.join(V, "tools", "unicase", "unicase.rs")
key = hashlib.sha256((ver + open(src).read()).encode()).hexdigest()[:16]
cache = os.path.join(B, "unicase-%s.txt" % key)
if not os.path.exists(cache):
    exe = os.path.join(B, "unicase_gen-%s" % key)
    subprocess.run(["rustc", "-O", src, "-o", exe], check=True, stdout=subprocess.DEVNULL, stderr=subprocess.PIPE, timeout=100)
    out = subprocess.run([exe], stdout=subprocess.PIPE, check=True, timeout=100).stdout.decode()
    tmp = cache + ".tmp%d" % os.getpid()
    open(tmp, "w").write(out); os.replace(tmp, cache)
lines = open(cache).read().split("\n")
if "CHECK 0" not in lines:
    sys.exit("gen_unicase: the dumper's self-check failed or is missing: " + str([l for l in lines if l.startswith("CHECK")]))
def lst(h):
    return "[" + ";".join(str(b) for b in bytes.fromhex(h)) + "]"
L = [l.split(" ") for l in lines if l.startswith("L ")]
U = [l.split(" ") for l in lines if l.startswith("U ")]
if len(L) < 1000 or len(U) < 1000:
    sys.exit("gen_unicase: implausibly small tables (%d, %d)" % (len(L), len(U)))
print("(* GENERATED from the case mappings of std in %s (char::to_lowercase / to_uppercase, every scalar value outside ASCII) - do not edit *)" % ver)
print("From Coq Require Import List NArith. Import ListNotations. Open Scope N_scope.")
for name, T in (("lower_tab", L), ("upper_tab", U)):
    print("Definition %s : list (list N * list N) := [" % name)
    print(";\n".join("  (%s, %s)" % (lst(a), lst(b)) for _, a, b in T) + "].")
# the two character classes of the final-sigma rule, as ranges of code points
I = [l.split(" ") for l in lines if l.startswith("I ")]
K = [l.split(" ") for l in lines if l.startswith("K ")]
if len(I) < 100 or len(K) < 50:
    sys.exit("gen_unicase: implausibly small class tables (%d, %d)" % (len(I), len(K)))
for name, T in (("ci_ranges", I), ("cased_ranges", K)):
    print("Definition %s : list (N * N) := [" % name)
    print(";\n".join("  (%d, %d)" % (int(a), int(b)) for _, a, b in T) + "].")
