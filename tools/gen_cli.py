#!/usr/bin/env python3
"""Translate the CLI flag table, the Config defaults and the bootstrap order (fail-closed)."""
import re, sys
repo = sys.argv[1]
ep = open(repo + "/src/entry_point/mod.rs").read()
cl = open(repo + "/src/entry_point/command_line_args/mod.rs").read()
sv = open(repo + "/src/server/mod.rs").read()
consts = dict(re.findall(r'pub const (\w+): &\'static str = "([^"]*)";', ep))
body = re.search(r'pub fn get_command_line_arg_list\(\) -> Vec<CommandLineArgument> \{(.*?)\n        argument_list\n', cl, re.S).group(1)
entries = re.findall(r'let argument = CommandLineArgument \{\s*short_form: "([^"]*)"\.to_string\(\),\s*long_form: "([^"]*)"\.to_string\(\),\s*environment_variable: Config::(\w+)\.to_string\(\),', body)
assert len(entries) == body.count("argument_list.push(argument);"), "flag table shape changed"
boot = re.search(r'pub fn bootstrap\(\) \{(.*?)\}', ep, re.S).group(1)
order = re.findall(r'(\w+)\(', boot)
assert order == ["read_system_environment_variables", "override_environment_variables_from_config", "override_environment_variables_from_command_line_args"], order
setup = re.search(r'pub fn setup\(\).*?\{(.*?)get_ip_port_thread_count', sv, re.S).group(1)
assert re.search(r'set_default_values\(\);\s*bootstrap\(\);', setup), "setup no longer runs set_default_values(); bootstrap();"
defaults = re.findall(r'let is_var_set = env::var\(Config::(\w+)\)\.is_ok\(\);\s*if !is_var_set \{\s*env::set_var\(Config::\1, Config::(\w+)\);', ep)
def cstr(s): return "[" + ";".join(str(b) for b in s.encode()) + "]"
print("(* GENERATED from src/entry_point — do not edit *)\nFrom Coq Require Import List NArith. Import ListNotations. Open Scope N_scope.")
print("Definition flag_table : list (list N * list N * list N) := [\n  %s]." % ";\n  ".join("(%s, %s, %s) (* -%s --%s %s *)" % (cstr(s), cstr(l), cstr(consts[v]), s, l, consts[v]) for s, l, v in entries))
print("Definition default_table : list (list N * list N) := [\n  %s]." % ";\n  ".join("(%s, %s) (* %s = %s *)" % (cstr(consts[v]), cstr(consts[d]), consts[v], consts[d].replace('"','')) for v, d in defaults))
print("Definition bootstrap_order_ok : bool := true.  (* defaults; environment; file; command line — asserted by the translator *)")
sys.stderr.write("flags=%d defaults=%d\n" % (len(entries), len(defaults)))
