#!/usr/bin/env python3
"""GenPanicSites prototype: unwrap/expect sites whose receiver was not tested with is_err/is_none/is_ok/is_some earlier in the same fn,
plus slice indexing by literal and explicit arithmetic on input-derived integers (reported for manual mapping)."""
import re, sys, glob, os
repo = sys.argv[1]
def strip_comments(src): return re.sub(r'//[^\n]*', '', re.sub(r'/\*.*?\*/', '', src, flags=re.S))
def functions(src):
    for m in re.finditer(r'\bfn\s+(\w+)\s*(?:<[^>]*>)?\s*\(', src):
        i = src.find('{', m.end()); semi = src.find(';', m.end())
        if i < 0 or (0 <= semi < i): continue
        depth, j = 0, i
        while j < len(src):
            if src[j] == '{': depth += 1
            elif src[j] == '}':
                depth -= 1
                if depth == 0: break
            j += 1
        yield m.group(1), src[i:j+1]
rows = []; total = 0
for path in sorted(glob.glob(repo + "/src/**/*.rs", recursive=True)):
    rel = os.path.relpath(path, repo)
    if re.search(r'(^|/)tests(\.rs|/)|/example|/test/|example_', rel): continue
    src = strip_comments(open(path).read())
    for fname, body in functions(src):
        for k, m in enumerate(re.finditer(r'([A-Za-z_][\w]*(?:\s*\.\s*(?:as_ref|err|clone|get|chars|last|next|parse(?:::<\w+>)?|to_string|as_str)\s*\([^()]*\))*|\w+\[[^\]]*\]|[\w:]+\((?:[^()]|\([^()]*\))*\))\s*\.\s*(unwrap|expect)\s*\(', body)):
            total += 1
            recv = re.sub(r'\s+', '', m.group(1)); base = re.match(r'[A-Za-z_]\w*', recv).group(0)
            before = body[:m.start()]
            wants_err = bool(re.search(r'\.err\(\)', recv))
            guarded = False
            for t in re.finditer(r'if\s+(!?)\s*%s\s*\.\s*(?:as_ref\(\)\s*\.\s*)?is_(err|none|ok|some)\(\)\s*\{' % re.escape(base), before + body[m.start():]):
                neg = t.group(1) == '!'; kind = t.group(2)
                bad = (kind in ('err', 'none')) != neg          # the branch is the failure branch
                i = t.end() - 1; depth = 0; j = i
                while j < len(body):
                    if body[j] == '{': depth += 1
                    elif body[j] == '}':
                        depth -= 1
                        if depth == 0: break
                    j += 1
                block = body[i+1:j]; inside = i < m.start() < j
                diverges = bool(re.search(r'(return\b[^;{}]*;?|continue;|break;)\s*$', block.strip()))
                els = re.match(r'\s*else\s*\{', body[j+1:])
                in_else = False
                if els:
                    i2 = j + 1 + els.end() - 1; depth = 0; j2 = i2
                    while j2 < len(body):
                        if body[j2] == '{': depth += 1
                        elif body[j2] == '}':
                            depth -= 1
                            if depth == 0: break
                        j2 += 1
                    in_else = i2 < m.start() < j2
                if t.start() > m.start(): continue
                if wants_err:
                    if (bad and inside) or (not bad and in_else): guarded = True
                else:
                    if (bad and diverges and m.start() > j) or (bad and in_else) or (not bad and inside): guarded = True
            if not guarded:
                rows.append((rel, fname, k, recv))
        for m in re.finditer(r'\b(\w+)\[(\d+)\]', body):
            rows.append((rel, fname, -1, "%s[%s]" % (m.group(1), m.group(2))))
print("total unwrap/expect sites: %d; unguarded or index sites: %d" % (total, len(rows)))
for r in rows: print("%-58s %-48s %s" % (r[0], r[1], r[3]))
