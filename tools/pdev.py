#!/usr/bin/env python3
"""dev helper: generator + impl + model for a property module; disagreements and oracle failures.  usage: pdev.py Cxx N [seed]"""
import sys, os, random, shutil, collections, importlib, time
sys.path.insert(0, os.path.dirname(os.path.abspath(__file__)))
from vlib import *
P = importlib.import_module("props." + sys.argv[1].lower()).P()
n = int(sys.argv[2]); rnd = random.Random(int(sys.argv[3]) if len(sys.argv) > 3 else 1)
cases = P.gen(rnd, os.environ.get("TIER", "quick"), n)
work = os.path.join(B, "work", "pd-%d" % os.getpid()); os.makedirs(work, exist_ok=True)
try:
    t0 = time.time(); a = run_impl(build_harness(), cases, work, timeout=getattr(P, "IMPL_TIMEOUT", 900)); t1 = time.time()
    ml = [P.model_input(c, o) for c, o in zip(cases, a)] if hasattr(P, "model_input") else cases
    b = run_model(os.path.join(B, "ocaml", "model_runner"), ml, work); t2 = time.time()
finally:
    shutil.rmtree(work, ignore_errors=True)
print("cases", len(cases), "impl %.1fs model %.1fs" % (t1 - t0, t2 - t1))
dis = []
for i, (x, y) in enumerate(zip(a, b)):
    ca, cb = P.canon(cases[i], x), (P.canon_model(cases[i], y) if hasattr(P, "canon_model") else P.canon(cases[i], y))
    if ca != cb and ca != "SKIP": dis.append(i)
print("disagreements", len(dis), collections.Counter(cases[i].split(" ")[0] for i in dis).most_common())
seen = collections.Counter()
for i in dis:
    k = cases[i].split(" ")[0]
    seen[k] += 1
    if seen[k] > int(os.environ.get("SHOW", "2")): continue
    l = cases[i]; f = strip_meta(l).split(" ")
    print("---", l[:100]);
    for x in f[1:]:
        try: print("    arg:", bytes.fromhex(x)[:160])
        except ValueError: print("    arg:", x[:80])
    print("    impl :", (a[i] or "None")[:220]); print("    model:", (b[i] or "None")[:220])
sigs = collections.defaultdict(list)
for l, o in zip(cases, a):
    s = P.oracle(l, o)
    if s: sigs[(s, P.classify(l, o, s))].append((l, o))
if hasattr(P, "group_oracle"):
    for i, s in P.group_oracle(cases, a):
        sigs[(s, P.classify(cases[i], a[i], s))].append((cases[i], a[i]))
for (s, c), v in sorted(sigs.items(), key=lambda x: -len(x[1])):
    print("==", s, "class:", c, "count:", len(v), collections.Counter(l.split(" ")[0] for l, o in v).most_common())
    for l, o in v[:3]:
        f = strip_meta(l).split(" "); print("   case:", l[:80], "out:", (o or "None")[:60])
        for x in f[1:]:
            try: print("      arg:", bytes.fromhex(x)[:120])
            except ValueError: print("      arg:", x[:80])
print(collections.Counter(P.outcome_class(l, o) for l, o in zip(cases, a)).most_common(60))
