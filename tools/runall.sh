#!/bin/bash
# run every claimed check (quick by default; or the properties named after the tier) on the current tree; prints one line per property
cd "$(dirname "$0")/.."; tier=${1:-quick}; shift
props="$@"; [ -z "$props" ] && props=$(python3 -c "import json; print(' '.join(c['property_id'] for c in json.load(open('MANIFEST.json'))['checks']))")
for p in $props; do
  out=$(./check $p $tier 2>&1); rc=$?
  echo "$p rc=$rc $(echo "$out" | grep -c '^KNOWN-FINDING') known | $(echo "$out" | tail -1 | cut -c1-160)"
done
