#!/bin/bash
# usage: seedall.sh [property ids...]  -- regression over every stored seeded change (seeded/<id>-<round>/), each applied to a COPY of /repo
# (created here, removed at the end) so that /repo is never touched; prints one DETECTED / MISSED line per seed and a count at the end.
# Run nothing else in /verif meanwhile (the checks share .build and coq/generated).  About 30 s per seed.
set -u
cd /verif
copy=/root/seedrepo-all; rm -rf $copy
git clone -q /repo $copy && cp /repo/Cargo.lock $copy/ || exit 2
export RWS_REPO=$copy
props="$@"; [ -z "$props" ] && props=$(ls seeded | grep -o '^C[0-9]*' | sort -u)
det=0; mis=0
for p in $props; do
  for d in seeded/$p-*; do
    [ -f $d/patch.diff ] || continue
    l=$(tools/seedcheck.sh $(basename $d) 2>&1 | grep -E ' (DETECTED|MISSED) ' | cut -c1-200)
    echo "$l"
    case "$l" in *DETECTED*) det=$((det+1));; *) mis=$((mis+1));; esac
  done
done
rm -rf $copy
git checkout -q -- evidence 2>/dev/null
echo "detected $det, missed $mis"
