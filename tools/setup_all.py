"""./check --setup : build the whole framework from files on disk, offline."""
import sys, time
from vlib import *

def main():
    t0 = time.time()
    with Lock():
        tabs = translate()
        bad = [t for t, r in tabs.items() if not r["ok"]]
        if bad:
            print("setup: translator failed for", bad, [tabs[t]["msg"] for t in bad])
        ok, log, s = coq_make([], clean=False)       # whole development
        print("setup: coq make %s in %.0fs" % ("ok" if ok else "FAILED", s))
        if not ok:
            print(log[-3000:])
        try:
            build_model_runner(); print("setup: model runner ok")
            build_harness(); print("setup: harness ok")
            build_binary(); print("setup: rws binary ok")
        except Infra as e:
            print("setup: %s" % e); return 1
    print("setup done in %.0fs" % (time.time() - t0))
    return 0 if ok and not bad else 1
