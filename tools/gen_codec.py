#!/usr/bin/env python3
"""Translate url-search-params' encode_uri_component / decode_uri_component replace chains (fail-closed)."""
import re, sys, glob
lock = open(sys.argv[1] + "/Cargo.lock").read()
ver = re.search(r'name = "url-search-params"\nversion = "([^"]+)"', lock).group(1)
paths = glob.glob("/root/.cargo/registry/src/*/url-search-params-%s/src/lib.rs" % ver)
assert len(paths) == 1, paths
src = open(paths[0]).read()
sym = dict(re.findall(r'(\w+): "((?:[^"\\]|\\.)*)",', re.search(r'pub const SYMBOL: Symbol = Symbol \{(.*?)\};', src, re.S).group(1)))
def unesc(s): return bytes(s, "utf-8").decode("unicode_escape")
def chain(fn):
    body = re.search(r'pub fn %s\(component: &str\) -> String \{(.*?)\n\}' % fn, src, re.S).group(1)
    stmts = [s.strip() for s in body.strip().split(";") if s.strip()]
    out = []
    for i, st in enumerate(stmts):
        if st.startswith("return _result"): continue
        m = re.match(r'(?:let mut _result = component|_result = _result)\.replace\s*\(\s*(SYMBOL\.\w+|"[^"]*")\s*,\s*(SYMBOL\.\w+|"[^"]*")\s*\)$', st)
        if not m: sys.exit("translate: unrecognised statement in %s: %r" % (fn, st))
        a, b = [unesc(sym[x[7:]]) if x.startswith("SYMBOL.") else x[1:-1] for x in m.groups()]
        out.append((a, b))
    return out
def cstr(s): return "[" + ";".join(str(b) for b in s.encode()) + "]"
print("(* GENERATED from url-search-params %s — do not edit *)" % ver)
print("From Coq Require Import List NArith. Import ListNotations. Open Scope N_scope.")
for name, fn in (("enc_chain", "encode_uri_component"), ("dec_chain", "decode_uri_component")):
    ch = chain(fn)
    print("Definition %s : list (list N * list N) := [\n  %s]." % (name, ";\n  ".join("(%s, %s) (* %s -> %s *)" % (cstr(a), cstr(b), a.encode().hex(), b.encode().hex()) for a, b in ch)))
    sys.stderr.write("%s: %d steps\n" % (name, len(ch)))
