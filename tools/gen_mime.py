#!/usr/bin/env python3
"""Translate src/mime_type/mod.rs::detect_mime_type into a Coq rule chain (fail-closed)."""
import re, sys
src = open(sys.argv[1]).read()
consts = dict(re.findall(r'pub const (\w+): &\'static str = "([^"]*)";', src))
m = re.search(r'pub fn detect_mime_type\(request_uri: &str\) -> String \{(.*?)\n    \}\n', src, re.S)
assert m, "detect_mime_type not found"
body = m.group(1)
rules = []
pos = 0
pat_suffix = re.compile(r'\s*let (\w+) = request_uri\.ends_with\(MimeType::(\w+)\);\s*if \1 \{\s*return MimeType::(\w+)\.to_string\(\);\s*\}', re.S)
pat_ext = re.compile(r'\s*let mut (\w+) = false;\s*let boxed_extension = MimeType::get_extension_from_filename\(request_uri\);\s*if !boxed_extension\.is_none\(\) \{\s*let (\w+) = vec!\[([^\]]*)\];\s*let extension = boxed_extension\.unwrap\(\);\s*let suffix = \["\.", extension\]\.join\(""\);\s*\1 = \2\.contains\(&suffix\.as_str\(\)\)\s*;?\s*\}\s*if \1 \{\s*return MimeType::(\w+)\.to_string\(\);\s*\}', re.S)
pat_default = re.compile(r'\s*return MimeType::(\w+)\.to_string\(\);\s*$', re.S)
default = None
while pos < len(body):
    for pat, kind in ((pat_suffix, 'suffix'), (pat_ext, 'ext'), (pat_default, 'default')):
        mm = pat.match(body, pos)
        if mm:
            if kind == 'suffix': rules.append(('RSuffix', [consts[mm.group(2)]], consts[mm.group(3)]))
            elif kind == 'ext': rules.append(('RExt', [consts[x.strip().split('::')[1]] for x in mm.group(3).split(',') if x.strip()], consts[mm.group(4)]))
            else: default = consts[mm.group(1)]
            pos = mm.end(); break
    else:
        if body[pos:].strip() == '': break
        sys.exit("translate: unrecognised statement in detect_mime_type at: %r" % body[pos:pos+120])
assert default is not None
def cstr(s): return "[" + ";".join(str(b) for b in s.encode()) + "]"
print("(* GENERATED from src/mime_type/mod.rs — do not edit *)")
print("From Coq Require Import List NArith. Import ListNotations. Open Scope N_scope.")
print("Inductive mrule := RSuffix (suf : list N) (ty : list N) | RExt (sufs : list (list N)) (ty : list N).")
print("Definition mime_chain : list mrule := [")
out=[]
for k, sufs, ty in rules:
    if k == 'RSuffix': out.append("  RSuffix %s %s (* %s -> %s *)" % (cstr(sufs[0]), cstr(ty), sufs[0], ty))
    else: out.append("  RExt [%s] %s (* %s -> %s *)" % ("; ".join(cstr(x) for x in sufs), cstr(ty), ",".join(sufs), ty))
print(";\n".join(out)); print("].")
print("Definition mime_default : list N := %s. (* %s *)" % (cstr(default), default))
sys.stderr.write("rules=%d default=%s\n" % (len(rules), default))
