#!/bin/bash
# usage: coqprefix.sh <file.v> <line>  -- compile the first <line> lines under limits, report time / status
f=$1; n=$2; d=$(mktemp -d); b=$(basename $f .v)
head -n $n $f > $d/T_$b.v
cd /verif/coq && ( ulimit -v 6000000; /usr/bin/time -f "%es %MKB" timeout 120 coqc -Q theories Rws -Q generated Rws -noglob $d/T_$b.v 2>&1 | tail -3 )
rm -rf $d
