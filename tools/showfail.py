#!/usr/bin/env python3
"""dev helper: run a property's generator + impl + oracle and print failure signatures with examples"""
import sys, os, random, shutil, collections, importlib
sys.path.insert(0, os.path.dirname(os.path.abspath(__file__)))
from vlib import *
from gen import serve as gs
P = importlib.import_module("props." + sys.argv[1].lower()).P()
n = int(sys.argv[2]); rnd = random.Random(int(sys.argv[3]) if len(sys.argv) > 3 else 1)
cases = P.gen(rnd, "quick", n)
work = os.path.join(B, "work", "sf-%d" % os.getpid()); os.makedirs(work, exist_ok=True)
try:
    a = run_impl(build_harness(), cases, work)
finally:
    shutil.rmtree(work, ignore_errors=True)
sigs = collections.defaultdict(list)
for l, o in zip(cases, a):
    s = P.oracle(l, o)
    if s: sigs[(s, P.classify(l, o, s))].append((l, o))
if hasattr(P, "group_oracle"):
    for i, s in P.group_oracle(cases, a): sigs[(s, None)].append((cases[i], a[i]))
for (s, c), v in sorted(sigs.items(), key=lambda x: -len(x[1])):
    print("==", s, "class:", c, "count:", len(v))
    for l, o in v[:2]:
        if l.startswith("serve"):
            pc = gs.parse_case(l); print("   req:", pc["req"][:120], "tree:", [(e[0], e[1][11:]) for e in pc["ents"] if e[1].startswith("outer/root/")])
            raw = bytes.fromhex(o.split(" ")[1]) if o.startswith("W ") else o; print("   out:", raw[:60] if isinstance(raw, bytes) else raw[:80])
        else:
            print("   case:", l[:200]); print("   out:", (o or "")[:200])
