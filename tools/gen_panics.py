#!/usr/bin/env python3
"""GenPanicSites: per function of the parser modules (C20), the number of places that can panic by construction
(unwrap / expect whose receiver is not tested by is_err / is_none / is_ok / is_some on the way, indexing by a literal, explicit
panic!/unreachable!/todo!/unimplemented!/assert!), plus the functions that call themselves.  The table is compared with a vetted table in
Coq (C20Sites.v): a new site or a new function with sites breaks the theorem and has to be looked at (a removed one does not); so does a
call, from a checked function, of an unwrapping twin that the vetted table marks as legacy.  Heuristic by design - it counts, the vetted table
and the models explain."""
import re, sys, glob, os
repo = sys.argv[1]
FILES = ["src/json/array/mod.rs", "src/json/array/integer/mod.rs", "src/json/array/float/mod.rs", "src/json/array/string/mod.rs", "src/json/array/boolean/mod.rs",
         "src/json/array/null/mod.rs", "src/json/array/object/mod.rs", "src/json/object/mod.rs", "src/json/property/mod.rs", "src/core/base64/mod.rs",
         "src/body/multipart_form_data/mod.rs", "src/body/form_urlencoded/mod.rs", "src/response/mod.rs", "src/request/mod.rs", "src/range/mod.rs", "src/header/mod.rs",
         "src/header/content_disposition/mod.rs", "src/entry_point/config_file/mod.rs", "src/entry_point/command_line_args/mod.rs", "src/url/path/mod.rs", "src/url/mod.rs", "src/null/mod.rs"]
sys.path.insert(0, os.path.dirname(os.path.abspath(__file__)))
from rustlex import clean as _clean
def strip_comments(src): return src
def strip_strings(src): return _clean(src, empty_literals=True)
def functions(src):
    for m in re.finditer(r'\bfn\s+(\w+)\s*(?:<[^>]*>)?\s*\(', src):
        i = src.find('{', m.end()); semi = src.find(';', m.end())
        if i < 0 or (0 <= semi < i): continue
        depth, j = 0, i
        while j < len(src):
            if src[j] == '{': depth += 1
            elif src[j] == '}':
                depth -= 1
                if depth == 0: break
            j += 1
        impls = [t.group(1) for t in re.finditer(r'\bimpl(?:\s*<[^>]*>)?\s+(?:[\w:]+(?:<[^>]*>)?\s+for\s+)?(\w+)', src[:m.start()])]
        yield m.group(1), src[i:j+1], (impls[-1] if impls else "")
UNWRAP = re.compile(r'([A-Za-z_][\w]*(?:\s*\.\s*(?:as_ref|err|clone|get|chars|last|next|parse(?:::<\w+>)?|to_string|as_str)\s*\([^()]*\))*|\w+\[[^\]]*\]|[\w:]+\((?:[^()]|\([^()]*\))*\))\s*\.\s*(unwrap|expect)\s*\(')
def block_end(body, i):
    depth, j = 0, i
    while j < len(body):
        if body[j] == '{': depth += 1
        elif body[j] == '}':
            depth -= 1
            if depth == 0: return j
        j += 1
    return len(body)
def unguarded(body):
    n = 0
    for m in UNWRAP.finditer(body):
        recv = re.sub(r'\s+', '', m.group(1)); base = re.match(r'[A-Za-z_]\w*', recv).group(0)
        wants_err = '.err()' in recv
        guarded = False
        for t in re.finditer(r'if\s+(!?)\s*%s\s*\.\s*(?:as_ref\(\)\s*\.\s*)?is_(err|none|ok|some)\(\)\s*(?:&&[^{]*)?\{' % re.escape(base), body):
            if t.start() > m.start(): continue
            neg = t.group(1) == '!'; kind = t.group(2)
            bad = (kind in ('err', 'none')) != neg
            i = t.end() - 1; j = block_end(body, i)
            block = body[i+1:j]; inside = i < m.start() < j
            diverges = bool(re.search(r'(return\b[^;{}]*;?|continue;|break;)\s*$', block.strip()))
            els = re.match(r'\s*else\s*\{', body[j+1:]); in_else = False
            if els:
                i2 = j + 1 + els.end() - 1; j2 = block_end(body, i2); in_else = i2 < m.start() < j2
            if wants_err:
                if (bad and inside) or (not bad and in_else): guarded = True
            else:
                if (bad and diverges and m.start() > j) or (bad and in_else) or (not bad and inside): guarded = True
        if not guarded: n += 1
    n += len(re.findall(r'\b\w+\[\d+\]', body))
    n += len(re.findall(r'\b(?:panic|unreachable|todo|unimplemented|assert|assert_eq|assert_ne)!\s*\(', body))
    return n
rows, rec, bodies = [], [], []
for rel in FILES:
    path = os.path.join(repo, rel)
    if not os.path.exists(path):
        sys.stderr.write("missing parser module: %s\n" % rel); sys.exit(2)
    src = strip_strings(strip_comments(open(path).read()))
    src = re.sub(r'#\[cfg\(test\)\]\s*mod\s+\w+\s*;', '', src)
    seen = {}
    for fname, body, owner in functions(src):
        k = seen.get(fname, 0); seen[fname] = k + 1
        key = "%s::%s%s" % (rel[4:-7] if rel.endswith("/mod.rs") else rel[4:], fname, "" if k == 0 else "#%d" % k)
        n = unguarded(body)
        if n: rows.append((key, n))
        bodies.append((key, fname, body))
        inner = body[1:]
        # a call of the same name: bare, through Self, or through the type the enclosing impl is for (not a method of another value or type)
        for c in re.finditer(r'(?:(\w+)\s*::\s*)?(?<![\w.])%s\s*\(' % re.escape(fname), inner):
            q = c.group(1)
            if q is None and inner[max(0, c.start() - 2):c.start()].strip().endswith("::"): continue
            if q is None or q == "Self" or q == owner:
                rec.append(key); break
if not rows:
    sys.stderr.write("no function found: the scanner no longer understands the source\n"); sys.exit(2)
print("(* generated by tools/gen_panics.py from /repo - do not edit *)")
print("From Coq Require Import List String. Import ListNotations. Open Scope string_scope.")
print("Definition panic_sites : list (string * nat) := [")
print(";\n".join('  ("%s", %d%%nat)' % r for r in rows))
print("].")
# calls of an underscore-prefixed function that has panic sites (an "unwrapping twin") from a function that is not underscore-prefixed: a twin
# reached from a checked entry point is a panic site of that entry point (the vetted table says for each twin whether that is allowed)
twins = {}
for key, n in rows:
    nm = key.split("::")[-1].split("#")[0]
    if nm.startswith("_"): twins.setdefault(nm, []).append(key)
calls = []
for key, fname, body in bodies:
    if fname.startswith("_"): continue
    for c in re.finditer(r'(?<![\w])(_\w+)\s*\(', body[1:]):
        if c.group(1) in twins:
            for tk in twins[c.group(1)]:
                if (key, tk) not in calls: calls.append((key, tk))
print("Definition twin_calls : list (string * string) := [" + "; ".join('("%s", "%s")' % c for c in calls) + "].")
print("Definition self_recursive : list string := [" + "; ".join('"%s"' % r for r in rec) + "].")
