#!/usr/bin/env python3
"""development helper: run generated cases through both runners and show disagreements.
   usage: corr.py <kind: serve|serveL|...> <n> <seed>"""
import sys, os, random, shutil, collections
sys.path.insert(0, os.path.dirname(os.path.abspath(__file__)))
from vlib import *
import httpcanon
from gen import serve as gs

def main():
    kind, n, seed = sys.argv[1], int(sys.argv[2]), int(sys.argv[3])
    rnd = random.Random(seed)
    if kind in ("serve", "serveL"):
        cases = [gs.serve_case(rnd, kind=kind) for _ in range(n)]
        canon = httpcanon.canon_serve
    else:
        raise SystemExit("unknown kind")
    work = os.path.join(B, "work", "corr-%d" % os.getpid()); os.makedirs(work, exist_ok=True)
    try:
        with Lock():
            impl_exe = build_harness(); model_exe = build_model_runner()
        a = run_impl(impl_exe, cases, work); b = run_model(model_exe, cases, work)
    finally:
        shutil.rmtree(work, ignore_errors=True)
    dis = [i for i in range(n) if canon(a[i]) != canon(b[i])]
    print("cases", n, "disagreements", len(dis))
    print(collections.Counter(canon(x).split(" ")[0] for x in a).most_common())
    for i in dis[:int(os.environ.get("SHOW", "5"))]:
        pc = gs.parse_case(cases[i])
        print("--- req:", pc["req"][:200], "cors:", pc["cors"][:60]); print(" tree:", [(e[0], e[1]) for e in pc["ents"]])
        ca, cb = canon(a[i]), canon(b[i])
        k = next((j for j in range(min(len(ca), len(cb))) if ca[j] != cb[j]), min(len(ca), len(cb)))
        print(" impl :", ca[:40], "...", ca[max(0, k - 60):k + 200]); print(" model:", cb[:40], "...", cb[max(0, k - 60):k + 200])
main()
