// prints the case mappings of the toolchain's std for every scalar value outside ASCII:
//   L <hex utf8 of c> <hex utf8 of c.to_lowercase()>      when it differs from c
//   U <hex utf8 of c> <hex utf8 of c.to_uppercase()>      when it differs from c
// str::to_lowercase differs from the per-character mapping only for U+03A3: a capital sigma becomes the final small sigma when, skipping
// case-ignorable characters, a cased character precedes it and none follows.  The two character classes of that rule are private to std; they are
// recovered here from str::to_lowercase itself, for every scalar value c (ASCII included):
//   t1 = (c + sigma) ends in the final form, t2 = ('a' + c + sigma) ends in the final form;  case-ignorable(c) = t2 and not t1;  for the others cased(c) = t1
//   I <lo> <hi>      a maximal range of case-ignorable code points (decimal)
//   K <lo> <hi>      a maximal range of code points that are cased and not case-ignorable
// and checked against the third arrangement ('a' + sigma + c is final iff c is case-ignorable or not cased) and a two-character context.
// The per-character view is checked against str::to_lowercase / to_uppercase on "x" + c + "x".
fn hex(s: &str) -> String { s.bytes().map(|b| format!("{:02x}", b)).collect() }
fn main() {
    let mut bad = 0;
    for u in 0x80u32..0x110000u32 {
        if let Some(c) = char::from_u32(u) {
            let s = c.to_string();
            let l: String = c.to_lowercase().collect();
            let up: String = c.to_uppercase().collect();
            if l != s { println!("L {} {}", hex(&s), hex(&l)); }
            if up != s { println!("U {} {}", hex(&s), hex(&up)); }
            let ctx = format!("x{}x", c);
            if u != 0x3a3 && ctx.to_lowercase() != format!("x{}x", l) { bad += 1; }
            if ctx.to_uppercase() != format!("X{}X", up) { bad += 1; }
        }
    }
    let mut ci: Vec<u32> = Vec::new();
    let mut ks: Vec<u32> = Vec::new();
    for u in 0u32..0x110000u32 {
        if let Some(c) = char::from_u32(u) {
            let t1 = format!("{}\u{3a3}", c).to_lowercase().ends_with('\u{3c2}');
            let t2 = format!("a{}\u{3a3}", c).to_lowercase().ends_with('\u{3c2}');
            let i = t2 && !t1;
            let k = !i && t1;
            if i { ci.push(u); }
            if k { ks.push(u); }
            // a following character: final iff it is case-ignorable (nothing cased follows) or not cased
            let t3 = format!("a\u{3a3}{}", c).to_lowercase().chars().nth(1) == Some('\u{3c2}');
            if t3 != (i || !k) { bad += 1; }
            // two-character contexts: an ignorable character between does not change the answer
            let t4 = format!("a'\u{3a3}.{}", c).to_lowercase().chars().nth(2) == Some('\u{3c2}');
            if t4 != (i || !k) { bad += 1; }
            let t5 = format!("{}\u{301}\u{3a3}", c).to_lowercase().ends_with('\u{3c2}');
            if t5 != k { bad += 1; }
        }
    }
    let ranges = |v: &Vec<u32>, tag: &str| {
        let mut j = 0;
        while j < v.len() {
            let lo = v[j];
            let mut hi = lo;
            while j + 1 < v.len() && v[j + 1] == hi + 1 { j += 1; hi = v[j]; }
            println!("{} {} {}", tag, lo, hi);
            j += 1;
        }
    };
    ranges(&ci, "I");
    ranges(&ks, "K");
    println!("CHECK {}", bad);
}
