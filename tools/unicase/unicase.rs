// prints the case mappings of the toolchain's std for every scalar value outside ASCII:
//   L <hex utf8 of c> <hex utf8 of c.to_lowercase()>      when it differs from c
//   U <hex utf8 of c> <hex utf8 of c.to_uppercase()>      when it differs from c
// str::to_lowercase differs from the per-character mapping only for U+03A3 (final sigma); the model maps it to the non-final form and the
// generators keep it out of compared cases.  The per-character view is checked here against str::to_lowercase / to_uppercase on "x" + c + "x".
fn hex(s: &str) -> String { s.bytes().map(|b| format!("{:02x}", b)).collect() }
fn main() {
    let mut bad = 0;
    for u in 0x80u32..0x110000u32 {
        if let Some(c) = char::from_u32(u) {
            let s = c.to_string();
            let l: String = c.to_lowercase().collect();
            let up: String = c.to_uppercase().collect();
            if l != s { println!("L {} {}", hex(&s), hex(&l)); }
            if up != s { println!("U {} {}", hex(&s), hex(&up)); }
            let ctx = format!("x{}x", c);
            if u != 0x3a3 && ctx.to_lowercase() != format!("x{}x", l) { bad += 1; }
            if ctx.to_uppercase() != format!("X{}X", up) { bad += 1; }
        }
    }
    println!("CHECK {}", bad);
}
