#!/usr/bin/env python3
"""markdown rows for DESIGN 15.7 from seeded/<id>/meta.json and seeded/OUTCOMES-<round>.tsv.  usage: tools/seedtable.py c"""
import sys, os, json
V = os.path.dirname(os.path.dirname(os.path.abspath(__file__)))
rnd = sys.argv[1]
for l in open(os.path.join(V, "seeded", "OUTCOMES-%s.tsv" % rnd)):
    if not l.strip(): continue
    sid, outcome = l.rstrip("\n").split("\t", 1)
    m = json.load(open(os.path.join(V, "seeded", sid, "meta.json")))
    files = ", ".join(f.replace("src/", "") for f in (m.get("files_changed") or []))
    summ = " ".join((m.get("summary") or "").split()).replace("|", "/")
    if len(summ) > 150: summ = summ[:147] + "..."
    print("| %s | %s | %s | %s |" % (sid, files, summ, outcome))
