#!/usr/bin/env python3
"""Shared machinery of ./check: translate -> coq make + audit -> build runners -> run cases -> diff -> oracle ->
known findings -> evidence.  See DESIGN.md sections 2.4, 5, 6, 14."""
import os, sys, json, subprocess, hashlib, time, re, fcntl, shutil, glob

V = os.path.dirname(os.path.dirname(os.path.abspath(__file__)))
REPO = os.environ.get("RWS_REPO", "/repo")
B = os.path.join(V, ".build")
COQ = os.path.join(V, "coq")
GUARD = "rws_verif"
NPROC = int(os.environ.get("VERIF_JOBS", "16"))
ENV = dict(os.environ, CARGO_NET_OFFLINE="true", CARGO_TARGET_DIR=os.path.join(B, "cargo-target"))


class Infra(Exception):
    """the machinery itself failed (not an observation about rws)"""


def sh(cmd, timeout=1200, cwd=None, env=None, stdin=None):
    p = subprocess.run(cmd, cwd=cwd, env=env or ENV, stdout=subprocess.PIPE, stderr=subprocess.STDOUT, timeout=timeout,
                       input=stdin, shell=isinstance(cmd, str))
    return p.returncode, p.stdout.decode("utf-8", "replace")


def write_if_changed(path, content):
    os.makedirs(os.path.dirname(path), exist_ok=True)
    if isinstance(content, str):
        content = content.encode()
    if os.path.exists(path) and open(path, "rb").read() == content:
        return False
    tmp = path + ".tmp%d" % os.getpid()
    open(tmp, "wb").write(content)
    os.replace(tmp, path)
    return True


class Lock:
    """serialise build steps of concurrently running checks"""
    def __enter__(self):
        os.makedirs(B, exist_ok=True)
        self.f = open(os.path.join(B, "lock"), "w")
        fcntl.flock(self.f, fcntl.LOCK_EX)
        return self
    def __exit__(self, *a):
        fcntl.flock(self.f, fcntl.LOCK_UN)
        self.f.close()


# --------------------------------------------------------------------------- translator (tie (a))
TABLES = {
    "GenMime":   ["gen_mime.py", REPO + "/src/mime_type/mod.rs"],
    "GenConsts": ["gen_consts.py", REPO],
    "GenCodec":  ["gen_codec.py", REPO],
    "GenCli":    ["gen_cli.py", REPO],
    "GenFsCalls": ["scan_fs.py", REPO],
    "GenSharedState": ["scan_shared.py", REPO],
    "GenChain": ["gen_chain.py", REPO],
    "GenCliDoc": ["gen_clidoc.py", REPO],
    "GenPanicSites": ["gen_panics.py", REPO],
    "GenUnicase": ["gen_unicase.py", REPO],        # the toolchain's case mappings (not /repo's source): cached per rustc version
}


def translate():
    """regenerate coq/generated/*.v from /repo's working tree; returns {table: {ok, msg, sha}}"""
    out = {}
    for name, (script, arg) in TABLES.items():
        sp = os.path.join(V, "tools", script)
        if not os.path.exists(sp):
            continue
        dst = os.path.join(COQ, "generated", name + ".v")
        try:
            p = subprocess.run([sys.executable, sp, arg], stdout=subprocess.PIPE, stderr=subprocess.PIPE, timeout=120)
            rc, text, err = p.returncode, p.stdout, p.stderr.decode("utf-8", "replace")
        except subprocess.TimeoutExpired:
            rc, text, err = 124, b"", "timeout"
        if rc != 0 or not text.strip():
            # fail closed: dependants no longer compile
            for ext in (".v", ".vo", ".vos", ".vok", ".glob"):      # also the compiled file: a stale .vo would keep dependants alive
                if os.path.exists(dst[:-2] + ext):
                    os.remove(dst[:-2] + ext)
            out[name] = {"ok": False, "msg": err.strip()[-600:], "sha": None}
        else:
            write_if_changed(dst, text)
            out[name] = {"ok": True, "msg": err.strip()[-200:], "sha": hashlib.sha256(text).hexdigest()[:16]}
    return out


# --------------------------------------------------------------------------- coq
def coq_project():
    files = sorted(glob.glob(COQ + "/theories/*.v") + glob.glob(COQ + "/theories/*/*.v") + glob.glob(COQ + "/generated/*.v"))
    rel = [os.path.relpath(f, COQ) for f in files]
    txt = "-Q theories Rws\n-Q generated Rws\n" + "\n".join(rel) + "\n"
    changed = write_if_changed(COQ + "/_CoqProject", txt)
    if changed or not os.path.exists(COQ + "/Makefile"):
        rc, out = sh(["coq_makefile", "-f", "_CoqProject", "-o", "Makefile"], cwd=COQ)
        if rc != 0:
            raise Infra("coq_makefile failed: " + out[-400:])


def coq_make(targets, timeout=1500, clean=False):
    coq_project()
    if clean:
        sh(["make", "clean"], cwd=COQ, timeout=300)
        for f in glob.glob(COQ + "/**/*.vo", recursive=True):
            os.remove(f)
    t0 = time.time()
    try:
        # a memory limit per coqc as well: a diverging vm_compute can take tens of GB before the time limit fires
        rc, out = sh(["bash", "-c", "ulimit -v 16000000; exec timeout %d make -j%d -k %s" % (timeout, NPROC, " ".join(targets))], cwd=COQ, timeout=timeout + 30)
    except subprocess.TimeoutExpired:
        rc, out = 124, "make timed out"
    return rc == 0, out, time.time() - t0


FORBIDDEN = [r"\bAdmitted\b", r"\badmit\b", r"\bAxiom\b", r"\bAxioms\b", r"\bParameter\b", r"\bParameters\b", r"\bConjecture\b",
             r"\bAdmit\s+Obligations\b", r"Unset\s+Guard", r"bypass_check", r"type-in-type", r"impredicative-set",
             r"Unset\s+Positivity", r"Unset\s+Universe\s+Checking", r"native_compute", r"\bDeclare\s+ML\b"]
SECTION_ONLY = r"\b(Hypothes[ie]s|Variables?|Context)\b"


def strip_coq_comments(s):
    out, depth, i = [], 0, 0
    while i < len(s):
        if s.startswith("(*", i):
            depth += 1; i += 2
        elif s.startswith("*)", i) and depth:
            depth -= 1; i += 2
        else:
            if depth == 0:
                out.append(s[i])
            i += 1
    return "".join(out)


def audit_sources():
    """grep the whole development (comments stripped, string literals kept) for anything that declares an axiom or
    disables a kernel check.  Variable/Hypothesis/Context are accepted only inside a Section."""
    bad = []
    for f in sorted(glob.glob(COQ + "/**/*.v", recursive=True)):
        src = strip_coq_comments(open(f, encoding="utf-8").read())
        for rx in FORBIDDEN:
            for m in re.finditer(rx, src):
                bad.append("%s: %s" % (os.path.relpath(f, V), m.group(0)))
        depth = 0      # Variable / Hypothesis / Context are legal only inside a Section (discharged at End)
        for m in re.finditer(r"^\s*(Section\s+\w+\s*\.|End\s+\w+\s*\.|Module\s+\w+|" + SECTION_ONLY + ")", src, re.M):
            t = m.group(1)
            if t.startswith("Section"): depth += 1
            elif t.startswith("End"): depth = max(0, depth - 1)
            elif t.startswith("Module"): depth += 1     # End of a module also decrements; modules are not used for assumptions
            elif depth == 0:
                bad.append("%s: %s outside a section" % (os.path.relpath(f, V), t))
    proj = open(COQ + "/_CoqProject").read()
    for flag in ("-type-in-type", "-impredicative-set", "-arg"):
        if flag in proj:
            bad.append("_CoqProject: " + flag)
    return bad


ALLOWED_AXIOMS = set()   # none: every property theorem must be closed under the global context


def audit_theorems(prop, theorems):
    """Print Assumptions for each obligation, in a fresh coqc that loads the compiled Props file.
    returns {theorem: {"status": "closed"|"axioms"|"missing", "axioms": [...]}}"""
    d = os.path.join(B, "audit", prop)
    shutil.rmtree(d, ignore_errors=True)
    os.makedirs(d)
    res = {}
    # one file per theorem so that a missing name does not hide the others
    procs = []
    for t in theorems:
        src = "From Rws Require Import Props.%s.\nPrint Assumptions %s.\n" % (prop, t)
        fn = os.path.join(d, "A_%s.v" % t)
        open(fn, "w").write(src)
        procs.append((t, subprocess.Popen(["timeout", "300", "coqc", "-Q", COQ + "/theories", "Rws", "-Q", COQ + "/generated", "Rws", "-noglob", fn],
                                          stdout=subprocess.PIPE, stderr=subprocess.STDOUT, cwd=d)))
        if len(procs) >= NPROC:
            for tt, p in procs:
                res[tt] = _assum(p)
            procs = []
    for tt, p in procs:
        res[tt] = _assum(p)
    return res


def _assum(p):
    out = p.communicate()[0].decode("utf-8", "replace")
    if p.returncode != 0:
        return {"status": "missing", "axioms": [], "msg": out.strip()[-300:]}
    if "Closed under the global context" in out:
        return {"status": "closed", "axioms": []}
    ax = re.findall(r"^([A-Za-z_][\w.']*)\s*:", out.split("Axioms:")[-1], re.M)
    if ax and all(a in ALLOWED_AXIOMS for a in ax):
        return {"status": "closed", "axioms": ax}
    return {"status": "axioms", "axioms": ax or [out.strip()[-200:]]}


# --------------------------------------------------------------------------- runners (tie (b))
def build_model_runner():
    """model.ml is (re)extracted by theories/Extract.v during make; compile it with the driver"""
    od = os.path.join(B, "ocaml")
    os.makedirs(od, exist_ok=True)
    srcs = [COQ + "/model.ml", COQ + "/model.mli", V + "/ocaml/driver.ml"]
    for s in srcs:
        if not os.path.exists(s):
            raise Infra("model runner source missing: " + s)
    h = hashlib.sha256(b"".join(open(s, "rb").read() for s in srcs)).hexdigest()
    stamp = os.path.join(od, "stamp")
    exe = os.path.join(od, "model_runner")
    if os.path.exists(exe) and os.path.exists(stamp) and open(stamp).read() == h:
        return exe
    for s in srcs:
        shutil.copy(s, od)
    rc, out = sh(["ocamlfind", "ocamlopt", "-O3" if False else "-unsafe", "-package", "str", "-linkpkg", "-w", "-a", "model.mli", "model.ml", "driver.ml",
                  "-o", "model_runner"], cwd=od, timeout=900)
    if rc != 0:
        raise Infra("ocaml build failed: " + out[-800:])
    open(stamp, "w").write(h)
    return exe


def build_harness(release=False):
    """a crate that #[path]-includes every module of /repo's CURRENT source plus /verif/harness/src/*.rs"""
    hd = os.path.join(B, "harness")
    os.makedirs(hd + "/src", exist_ok=True)
    main = open(REPO + "/src/main.rs").read()
    mods = re.findall(r"^pub mod (\w+);", main, re.M)
    if not mods:
        raise Infra("no `pub mod` list in /repo/src/main.rs")
    lines = ["#![allow(dead_code, unused, warnings)]"]
    for m in mods:
        p = "%s/src/%s/mod.rs" % (REPO, m)
        if not os.path.exists(p):
            p = "%s/src/%s.rs" % (REPO, m)
        lines.append('#[path = "%s"] pub mod %s;' % (p, m))
    for f in sorted(glob.glob(V + "/harness/src/*.rs")):
        lines.append('#[path = "%s"] mod %s;' % (f, os.path.basename(f)[:-3]))
    lines.append("fn main(){ run::main(); }")
    write_if_changed(hd + "/src/main.rs", "\n".join(lines) + "\n")
    cargo = open(REPO + "/Cargo.toml").read()
    deps = cargo[cargo.index("[dependencies]"):]
    write_if_changed(hd + "/Cargo.toml", '[package]\nname = "rws_harness"\nversion = "0.0.0"\nedition = "2021"\nauthors = ["x"]\n'
                     'repository = "x"\ndescription = "x"\nlicense = "MIT"\nrust-version = "1.60"\n' + deps + "\n[workspace]\n"
                     "[profile.release]\noverflow-checks = false\ndebug-assertions = false\n")
    lock = open(REPO + "/Cargo.lock").read().replace('name = "rws"\nversion = "16.0.0"', 'name = "rws_harness"\nversion = "0.0.0"')
    lock = re.sub(r'name = "rws"\nversion = "[^"]*"', 'name = "rws_harness"\nversion = "0.0.0"', lock)
    write_if_changed(hd + "/Cargo.lock", lock)
    env = dict(ENV, RUSTFLAGS="--cfg %s" % GUARD)
    cmd = ["cargo", "build", "--offline", "--quiet"] + (["--release"] if release else [])
    rc, out = sh(cmd, cwd=hd, env=env, timeout=1200)
    if rc != 0:
        raise Infra("harness build failed (does /repo compile?):\n" + out[-1500:])
    return os.path.join(ENV["CARGO_TARGET_DIR"], "release" if release else "debug", "rws_harness")


def build_binary():
    """the real rws binary from /repo's working tree, hooks off, for the loopback campaigns"""
    # one target directory per source tree: two trees hold the same package name, and a fresh build of one does not replace the final
    # binary that the other left behind (seen when seeded changes were tried on a copy of /repo while /repo itself was checked)
    tdir = "cargo-target-bin" if REPO == "/repo" else "cargo-target-bin-" + hashlib.sha256(REPO.encode()).hexdigest()[:8]
    env = dict(ENV, CARGO_TARGET_DIR=os.path.join(B, tdir))
    rc, out = sh(["cargo", "build", "--offline", "--quiet", "--manifest-path", REPO + "/Cargo.toml"], env=env, timeout=1200)
    if rc != 0:
        raise Infra("rws binary build failed:\n" + out[-1500:])
    return os.path.join(env["CARGO_TARGET_DIR"], "debug", "rws")


def strip_meta(line):
    i = line.find(" #")
    return line if i < 0 else line[:i]


def _shards(lines, n):
    n = max(1, min(n, len(lines)))
    sh_ = [[] for _ in range(n)]
    for i, l in enumerate(lines):
        sh_[i % n].append((i, l))
    return sh_


ABS_MARK = "@@W@@ABS@@"                      # inside hex-encoded fields: the scratch directory's absolute path without its leading slash
ABS_HEX = ABS_MARK.encode().hex()            # 20 hex digits: does not occur in random data by accident (a 3-byte mark did: 1 case in 2 500)


def subst_base(line, base):
    """the shard's scratch directory for the placeholders: @W@ in plain fields, ABS_MARK (as hex) inside hex-encoded fields (paths, link targets, requests)"""
    return line.replace("@W@", base).replace(ABS_HEX, base.lstrip("/").encode().hex())


def run_impl(exe, lines, workdir, timeout=900, sequential=False):
    """run case lines through the Rust harness; a runner that dies (stack overflow, abort) marks the case it was on as
    CRASH and the rest of the shard is resumed in a fresh process"""
    res = [None] * len(lines)
    shards = _shards(lines, 1 if sequential else NPROC)
    state = []
    for k, shard in enumerate(shards):
        state.append({"k": k, "todo": shard})
    rounds = 0
    while any(s["todo"] for s in state):
        rounds += 1
        if rounds > 200:
            raise Infra("impl runner keeps dying")
        procs = []
        for s in state:
            if not s["todo"]:
                continue
            wd = os.path.join(workdir, "impl%d" % s["k"])
            os.makedirs(wd, exist_ok=True)
            fin, fout = os.path.join(wd, "in.txt"), os.path.join(wd, "out.txt")
            open(fin, "w").write("".join(subst_base(strip_meta(l), wd + "/w") + "\n" for _, l in s["todo"]))
            if os.path.exists(fout):
                os.remove(fout)
            p = subprocess.Popen([exe, fin, fout], cwd=wd, stdout=subprocess.DEVNULL, stderr=subprocess.DEVNULL, env=dict(os.environ, RUST_BACKTRACE="0"))
            procs.append((s, p, fout))
        for s, p, fout in procs:
            try:
                p.wait(timeout=timeout)
                rc = p.returncode
            except subprocess.TimeoutExpired:
                p.kill(); p.wait(); rc = -999
            outl = open(fout).read().split("\n") if os.path.exists(fout) else []
            if outl and outl[-1] == "":
                outl.pop()
            n = len(outl)
            for (i, _), o in zip(s["todo"], outl):
                res[i] = o
            if n < len(s["todo"]):
                i, _ = s["todo"][n]
                res[i] = "CRASH %s" % ("timeout" if rc == -999 else ("signal %d" % -rc if rc < 0 else "exit %d" % rc))
                s["todo"] = s["todo"][n + 1:]
            else:
                s["todo"] = []
    return res


def _big_stack():
    import resource
    try:
        resource.setrlimit(resource.RLIMIT_STACK, (resource.RLIM_INFINITY, resource.RLIM_INFINITY))
    except (ValueError, OSError):
        try:
            soft, hard = resource.getrlimit(resource.RLIMIT_STACK)
            resource.setrlimit(resource.RLIMIT_STACK, (hard, hard))
        except (ValueError, OSError):
            pass


def run_model(exe, lines, workdir, timeout=900):
    """run case lines through the extracted model (stack limit lifted: the extracted list functions are not tail recursive);
    a runner that dies marks the case it was on MODELCRASH and the rest of the shard is resumed"""
    import threading
    res = [None] * len(lines)
    state = [{"k": k, "todo": shard} for k, shard in enumerate(_shards(lines, NPROC))]
    rounds = 0
    while any(s["todo"] for s in state):
        rounds += 1
        if rounds > 50:
            raise Infra("model runner keeps dying")
        procs = []
        for s in state:
            if not s["todo"]:
                continue
            wd = os.path.join(workdir, "impl%d" % s["k"])   # same @W@ substitution as the implementation side
            data = "".join(subst_base(strip_meta(l), wd + "/w") + "\n" for _, l in s["todo"]).encode()
            p = subprocess.Popen([exe, REPO], stdin=subprocess.PIPE, stdout=subprocess.PIPE, stderr=subprocess.PIPE, preexec_fn=_big_stack)
            procs.append((s, p, data))
        outs = {}
        def feed(idx, p, data):
            try:
                outs[idx] = p.communicate(data, timeout=timeout)
            except subprocess.TimeoutExpired:
                p.kill(); outs[idx] = (b"", b"timeout")
        th = [threading.Thread(target=feed, args=(i, p, d)) for i, (_, p, d) in enumerate(procs)]
        [t.start() for t in th]; [t.join() for t in th]
        for idx, (s, p, _) in enumerate(procs):
            o, e = outs[idx]
            outl = o.decode().split("\n")
            if outl and outl[-1] == "":
                outl.pop()
            n = len(outl)
            if n > len(s["todo"]):
                raise Infra("model runner produced %d lines for %d cases: %s" % (n, len(s["todo"]), e.decode()[-300:]))
            for (i, _), ol in zip(s["todo"], outl):
                res[i] = ol
            if n < len(s["todo"]):
                i, _ = s["todo"][n]
                res[i] = "MODELCRASH " + e.decode()[-120:].replace("\n", " ")
                s["todo"] = s["todo"][n + 1:]
            else:
                s["todo"] = []
    return res


# --------------------------------------------------------------------------- known findings
def load_findings():
    """known_findings.txt: `finding: property=Cxx id=... class=... :: what` / `fixed: property=Cxx <commit> <what>`"""
    out = []
    p = os.path.join(V, "known_findings.txt")
    if not os.path.exists(p):
        return out
    for line in open(p):
        line = line.strip()
        if not line or line.startswith("#"):
            continue
        if line.startswith("finding:"):
            head, _, what = line[len("finding:"):].partition(" :: ")
            kv = dict((m.group(1), m.group(2).strip()) for m in re.finditer(r"(\b(?:property|id|class|where))=(.*?)(?=\s+(?:property|id|class|where)=|$)", head.strip()))
            kv["what"] = what.strip(); kv["status"] = "open"
            out.append(kv)
        elif line.startswith("fixed:"):
            m = re.match(r"fixed:\s+property=(\S+)\s+(\S+)\s+(.*)", line)
            out.append({"property": m.group(1), "commit": m.group(2), "what": m.group(3), "status": "fixed"})
    return out


def hexs(b):
    return (b if isinstance(b, (bytes, bytearray)) else b.encode()).hex()


def unhex(s):
    return bytes.fromhex(s)
