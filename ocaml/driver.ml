(* reads case lines, prints one canonical result line per case *)
open Model
let rec pos_of_int i = if i = 1 then XH else if i land 1 = 1 then XI (pos_of_int (i lsr 1)) else XO (pos_of_int (i lsr 1))
let n_of_int i = if i = 0 then N0 else Npos (pos_of_int i)
let rec int_of_pos = function XH -> 1 | XO p -> 2 * int_of_pos p | XI p -> 2 * int_of_pos p + 1
let int_of_n = function N0 -> 0 | Npos p -> int_of_pos p
let rec pos_to_dec p = (* decimal string of a positive, by repeated doubling on a digit list *)
  let double_add ds carry = let rec go ds c = match ds with [] -> if c = 0 then [] else [c] | d :: r -> let v = 2 * d + c in (v mod 10) :: go r (v / 10) in go ds carry in
  match p with XH -> [1] | XO q -> double_add (pos_to_dec q) 0 | XI q -> double_add (pos_to_dec q) 1
let dec_of_n = function N0 -> "0" | Npos p -> String.concat "" (List.rev_map string_of_int (pos_to_dec p))
let hexval c = match c with '0'..'9' -> Char.code c - 48 | 'a'..'f' -> Char.code c - 87 | _ -> failwith "hex"
let bytes_of_hex h = List.init (String.length h / 2) (fun i -> n_of_int (16 * hexval h.[2*i] + hexval h.[2*i+1]))
let bytes_of_string s = List.init (String.length s) (fun i -> n_of_int (Char.code s.[i]))
let hex_of_bytes l = let b = Buffer.create 64 in List.iter (fun x -> Buffer.add_string b (Printf.sprintf "%02x" (int_of_n x))) l; Buffer.contents b
let string_of_bytes l = let b = Buffer.create 64 in List.iter (fun x -> Buffer.add_char b (Char.chr (int_of_n x))) l; Buffer.contents b
let read_file p = let ic = open_in_bin p in let n = in_channel_length ic in let s = really_input_string ic n in close_in ic; s
let show_req r =
  Printf.sprintf "OK m=%s u=%s v=%s h=[%s] b=%s" (hex_of_bytes r.method0) (hex_of_bytes r.uri) (hex_of_bytes r.version)
    (String.concat ";" (List.map (fun h -> hex_of_bytes h.hname ^ ":" ^ hex_of_bytes h.hvalue) r.headers)) (hex_of_bytes r.body)

(* ---- C19 value trees:  s<hex> b0 b1 i<dec> f<dbg>~<disp> n O(name=V,..) AI<w>(..;..) AF(..) AS(..) AB(..) AN(k) AO(..) ---- *)
let n_of_dec (t : string) : n =
  let ten = n_of_int 10 in
  let r = ref N0 in String.iter (fun c -> r := N.add (N.mul !r ten) (n_of_int (Char.code c - 48))) t; !r
let signed_of_dec t = if String.length t > 0 && t.[0] = '-' then (true, n_of_dec (String.sub t 1 (String.length t - 1))) else (false, n_of_dec t)
let parse_jv (src : string) : jv option =
  let i = ref 0 in let len = String.length src in
  let peek () = if !i < len then src.[!i] else '\000' in
  let until stops = let st = !i in while !i < len && not (String.contains stops src.[!i]) do incr i done; String.sub src st (!i - st) in
  let exception Bad in
  let eat c = if peek () = c then incr i else raise Bad in
  let flt () = let t = until ",;)" in match String.index_opt t '~' with None -> raise Bad | Some k -> (bytes_of_string (String.sub t 0 k), bytes_of_string (String.sub t (k + 1) (String.length t - k - 1))) in
  let list item = eat '('; if peek () = ')' then (incr i; []) else begin
      let out = ref [] in let go = ref true in
      while !go do out := item () :: !out; if peek () = ';' then incr i else (eat ')'; go := false) done; List.rev !out end in
  let width w = match w with "i8" -> I8 | "i16" -> I16 | "i32" -> I32 | "i64" -> I64 | "i128" -> I128 | "u8" -> U8 | "u16" -> U16 | "u32" -> U32 | "u64" -> U64 | "u128" -> U128 | _ -> raise Bad in
  let rec value () : jv =
    let c = peek () in incr i;
    match c with
    | 's' -> JS (bytes_of_hex (until ",;)"))
    | 'b' -> let d = peek () in incr i; JB (d = '1')
    | 'i' -> let (ng, m) = signed_of_dec (until ",;)") in JI (ng, m)
    | 'f' -> let (d, p) = flt () in JF (d, p)
    | 'n' -> JNull
    | 'O' -> eat '('; if peek () = ')' then (incr i; JO []) else begin
        let out = ref [] in let go = ref true in
        while !go do let n = until "=" in eat '='; let v = value () in out := (bytes_of_string n, v) :: !out; if peek () = ',' then incr i else (eat ')'; go := false) done;
        JO (List.rev !out) end
    | 'A' -> let k = peek () in incr i;
      (match k with
       | 'I' -> let w = width (until "(") in JAI (w, list (fun () -> signed_of_dec (until ";)")))
       | 'F' -> JAF (list (fun () -> eat 'f'; flt ()))
       | 'S' -> JAS (list (fun () -> eat 's'; bytes_of_hex (until ";)")))
       | 'B' -> JAB (list (fun () -> let d = peek () in incr i; d = '1'))
       | 'N' -> eat '('; let t = until ")" in eat ')'; JAN (let rec nat k = if k = 0 then O else S (nat (k - 1)) in nat (int_of_string t))
       | 'O' -> JAO (list value)
       | _ -> raise Bad)
    | _ -> raise Bad in
  try let v = value () in if !i = len then Some v else None with Bad -> None | Failure _ -> None | Invalid_argument _ -> None
let rec nat_to_int = function O -> 0 | S k -> 1 + nat_to_int k
let show_signed (ng, m) = (if ng && m <> N0 then "-" else "") ^ dec_of_n m
let width_name = function I8 -> "i8" | I16 -> "i16" | I32 -> "i32" | I64 -> "i64" | I128 -> "i128" | U8 -> "u8" | U16 -> "u16" | U32 -> "u32" | U64 -> "u64" | U128 -> "u128"
let rec show_jv (v : jv) : string =
  match v with
  | JS s -> "s" ^ hex_of_bytes s | JB b -> if b then "b1" else "b0" | JI (ng, m) -> "i" ^ show_signed (ng, m) | JF (d, _) -> "f" ^ string_of_bytes d | JNull -> "n"
  | JO fs -> "O(" ^ String.concat "," (List.map (fun (n, x) -> string_of_bytes n ^ "=" ^ show_jv x) fs) ^ ")"
  | JAI (w, xs) -> "AI" ^ width_name w ^ "(" ^ String.concat ";" (List.map show_signed xs) ^ ")"
  | JAF xs -> "AF(" ^ String.concat ";" (List.map (fun (d, _) -> "f" ^ string_of_bytes d) xs) ^ ")"
  | JAS xs -> "AS(" ^ String.concat ";" (List.map (fun s -> "s" ^ hex_of_bytes s) xs) ^ ")"
  | JAB xs -> "AB(" ^ String.concat ";" (List.map (fun b -> if b then "1" else "0") xs) ^ ")"
  | JAN k -> "AN(" ^ string_of_int (nat_to_int k) ^ ")"
  | JAO xs -> "AO(" ^ String.concat ";" (List.map show_jv xs) ^ ")"
(* ---- tree construction ---- *)
let rec insert (nd : node) (path : n list list) (leaf : node) : node =
  match path with
  | [] -> leaf
  | c :: rest ->
    let ents = (match nd with Dir e -> e | _ -> []) in
    let rec upd = function
      | [] -> [ (c, insert (Dir []) rest leaf) ]
      | (m, x) :: r -> if m = c then (m, insert x rest leaf) :: r else (m, x) :: upd r in
    Dir (upd ents)
let split_path s = List.filter (fun x -> x <> "") (String.split_on_char '/' s) |> List.map bytes_of_string
let build_tree base spec =
  let root = ref (insert (Dir []) (split_path base) (Dir [])) in
  if spec <> "" then List.iter (fun ent ->
    match String.split_on_char ':' ent with
    | ["D"; p] -> root := insert !root (split_path (base ^ "/" ^ string_of_bytes (bytes_of_hex p))) (Dir [])
    | ["F"; p; d] -> root := insert !root (split_path (base ^ "/" ^ string_of_bytes (bytes_of_hex p))) (File (bytes_of_hex d))
    | ["L"; p; t] -> root := insert !root (split_path (base ^ "/" ^ string_of_bytes (bytes_of_hex p))) (Link (bytes_of_hex t))
    | _ -> failwith ("bad tree entry " ^ ent)) (String.split_on_char ',' spec);
  !root
let canon_body rs b =
  let is_text = (match rs.rs_ranges with [c] -> string_of_bytes c.c_type = "text/plain" | _ -> false) in
  if is_text && int_of_n rs.rs_status = 200 then
    let lines = List.sort compare (Str.split_delim (Str.regexp "\r\n") b) in hex_of_bytes (bytes_of_string (String.concat "\r\n" lines))
  else hex_of_bytes (bytes_of_string b)
let volatile = ["Date-Unix-Epoch-Nanos"; "Last-Modified-Unix-Epoch-Nanos"]
let show_headers hs = String.concat ";" (List.map (fun h -> let n = string_of_bytes h.hname in
  if List.mem n volatile then n ^ ":" else n ^ ":" ^ hex_of_bytes h.hvalue) hs)
let () =
  let repo = Sys.argv.(1) in
  let asset p = bytes_of_string (read_file (repo ^ "/src/app/controller/" ^ p)) in
  let assets = { as_index = asset "index/index.html"; as_style = asset "style/style.css"; as_script = asset "script/script.js";
                 as_favicon = asset "favicon/favicon.svg"; as_404 = asset "not_found/404.html" } in
  try while true do
    let l = input_line stdin in
    match String.split_on_char ' ' l with
    | ["parse"] -> (match parse_request [] with Ok r -> print_endline (show_req r) | Err _ -> print_endline "ERR" | Panic -> print_endline "PANIC")
    | ["parse"; h] ->
      (match parse_request (bytes_of_hex h) with
       | Ok r -> print_endline (show_req r) | Err _ -> print_endline "ERR" | Panic -> print_endline "PANIC")
    | (("serve" | "serveL") as kind) :: base :: cwdrel :: cors :: tree :: req :: _opts ->
      let root = build_tree base tree in
      let fs = { root = root; cwd = split_path (base ^ "/" ^ cwdrel) } in
      let c = (match String.split_on_char '|' cors with
               | ["all"] -> CAllowAll
               | ["off"; o; cr; m; h; e; a] -> COff (bytes_of_hex o, bytes_of_hex cr, bytes_of_hex m, bytes_of_hex h, bytes_of_hex e, bytes_of_hex a)
               | _ -> failwith "cors") in
      let size = List.fold_left (fun acc o -> if String.length o > 5 && String.sub o 0 5 = "size=" then int_of_string (String.sub o 5 (String.length o - 5)) else acc) 10000 _opts in
      let cfg = { cf_size = n_of_int size; cf_cors = c; cf_assets = assets; cf_time = []; cf_errmsg = [] } in
      let app_err = List.mem "app=err" _opts in
      let out = (if app_err then process_with (fun _ -> SErr (n_of_int 400)) cfg (bytes_of_hex req)
                 else (if kind = "serveL" then process_legacy else process) cfg fs (bytes_of_hex req)) in
      (match out with
       | Wrote (_, raw, ok) -> Printf.printf "W %s %s\n" (hex_of_bytes raw) (if ok || kind = "serveL" then "ok" else "err")
       | Panicked _ -> print_endline "PANIC")
    | ["mprt"; bd; ps] ->
      let parts = if ps = "-" then [] else List.map (fun p -> match String.split_on_char '=' p with
          | [h; b] -> { p_headers = (if h = "-" then [] else List.map (fun nv -> match String.split_on_char ':' nv with [n; v] -> { hname = bytes_of_hex n; hvalue = bytes_of_hex v } | [n] -> { hname = bytes_of_hex n; hvalue = [] } | _ -> failwith "hdr") (String.split_on_char '&' h)); p_body = bytes_of_hex b }
          | _ -> failwith "part") (String.split_on_char ';' ps) in
      let show ps = String.concat ";" (List.map (fun p -> String.concat "&" (List.map (fun h -> hex_of_bytes h.hname ^ ":" ^ hex_of_bytes h.hvalue) p.p_headers) ^ "=" ^ hex_of_bytes p.p_body) ps) in
      if parts = [] || List.exists (fun p -> p.p_headers = []) parts then print_endline "GENERR" else begin
        let g = multipart_generate parts (bytes_of_hex bd) in
        Printf.printf "G %s | %s dom=%d\n" (hex_of_bytes g) (match multipart_parse g (bytes_of_hex bd) with MOk ps -> "OK " ^ show ps | MErr -> "ERR" | MPanicWindows0 -> "PANIC") (if multipart_in_domain parts (bytes_of_hex bd) then 1 else 0) end
    | ["mp"; bd] -> (match multipart_parse [] (bytes_of_hex bd) with MOk _ -> print_endline "OK " | MErr -> print_endline "ERR" | MPanicWindows0 -> print_endline "PANIC")
    | ["mp"; bd; data] ->
      (match multipart_parse (bytes_of_hex data) (bytes_of_hex bd) with
       | MOk ps -> print_endline ("OK " ^ String.concat "|" (List.map (fun p -> String.concat ";" (List.map (fun h -> hex_of_bytes h.hname ^ ":" ^ hex_of_bytes h.hvalue) p.p_headers) ^ "=" ^ hex_of_bytes p.p_body) ps))
       | MErr -> print_endline "ERR" | MPanicWindows0 -> print_endline "PANIC")
    | [("qrt" | "furt") as k; kvs] ->
      let pairs = if kvs = "-" then [] else List.map (fun kv -> match String.split_on_char ':' kv with [a; b] -> (bytes_of_hex a, bytes_of_hex b) | [a] -> (bytes_of_hex a, []) | _ -> failwith "kv") (String.split_on_char ';' kvs) in
      let q = List.concat (List.mapi (fun i (a, b) -> (if i = 0 then [] else [n_of_int 38]) @ encode_uri a @ [n_of_int 61] @ encode_uri b) pairs) in
      let show m = String.concat ";" (List.sort compare (List.map (fun (k, v) -> hex_of_bytes k ^ "=" ^ hex_of_bytes v) m)) in
      (* dom: 1 = inside the domain of C17_fields_round_trip (for furt: and the text passes the form parser's filter unchanged); the text built
         here must then be the model's build_query *)
      let dom = if map_ok pairs && q = build_query pairs && (k = "qrt" || form_text_ok q) then 1 else 0 in
      if k = "qrt" then Printf.printf "Q %s | OK %s dom=%d\n" (hex_of_bytes q) (show (parse_query q)) dom
      else (match form_urlencoded_parse q with Some m -> Printf.printf "Q %s | OK %s dom=%d\n" (hex_of_bytes q) (show m) dom | None -> Printf.printf "Q %s | ERR dom=%d\n" (hex_of_bytes q) dom)
    | ["pct"] -> print_endline "E  | D  dom=1"
    | ["pct"; t] -> let e = encode_uri (bytes_of_hex t) in Printf.printf "E %s | D %s dom=%d\n" (hex_of_bytes e) (hex_of_bytes (decode_uri e)) (if in_F1 (bytes_of_hex t) then 0 else 1)
    | ["pq"] -> print_endline "OK "
    | ["pq"; q] ->
      let m = parse_query (bytes_of_hex q) in
      print_endline ("OK " ^ String.concat ";" (List.sort compare (List.map (fun (k, v) -> hex_of_bytes k ^ "=" ^ hex_of_bytes v) m)))
    | ["cfg"; envs; file; args] ->
      let pairs x = if x = "-" then [] else List.map (fun kv -> match String.split_on_char ':' kv with [k; v] -> (bytes_of_hex k, bytes_of_hex v) | [k] -> (bytes_of_hex k, []) | _ -> failwith "kv") (String.split_on_char ',' x) in
      let e0 = pairs envs in
      let f = if file = "-" then None else Some (bytes_of_hex (String.sub file 1 (String.length file - 1))) in
      let a = if args = "-" then [] else List.map bytes_of_hex (String.split_on_char ',' args) in
      let e = setup e0 f a in
      print_endline (String.concat ";" (List.map (fun ((_, _), v) -> string_of_bytes v ^ "=" ^ (match env_get v e with Some x -> hex_of_bytes x | None -> "<unset>")) flag_table))
    | ["resprt"; ser; code; rsn; hs; parts] ->
      let hl = if hs = "-" then [] else List.map (fun nv -> match String.split_on_char ':' nv with [n; v] -> { hname = bytes_of_hex n; hvalue = bytes_of_hex v } | [n] -> { hname = bytes_of_hex n; hvalue = [] } | _ -> failwith "hdr") (String.split_on_char ';' hs) in
      let pl = if parts = "-" then [] else List.map (fun p -> match String.split_on_char ':' p with
                 | [s; e; z; t; b] -> ((((n_of_int (int_of_string s), n_of_int (int_of_string e)), bytes_of_hex z), bytes_of_hex b), bytes_of_hex t)
                 | _ -> failwith "part") (String.split_on_char ',' parts) in
      let r = { pr_version = bytes_of_string "HTTP/1.1"; pr_status = n_of_int (int_of_string code); pr_reason = bytes_of_hex rsn; pr_headers = hl; pr_ranges = pl } in
      let dom = if single_ok r then 1 else if multi_ok r then 2 else 0 in
      let g = lib_generate (ser = "inst") r in
      Printf.printf "G %s | " (hex_of_bytes g);
      (match response_parse g with
       | POk r -> Printf.printf "OK %s %d %s h=[%s] r=[%s] dom=%d\n" (hex_of_bytes r.pr_version) (int_of_n r.pr_status) (hex_of_bytes r.pr_reason)
                    (String.concat ";" (List.map (fun h -> hex_of_bytes h.hname ^ ":" ^ hex_of_bytes h.hvalue) r.pr_headers))
                    (String.concat ";" (List.map (fun ((((s, e), z), b), t) -> Printf.sprintf "%s-%s/%s:%s:%s" (string_of_bytes (Model.show_N s)) (string_of_bytes (Model.show_N e)) (string_of_bytes z) (hex_of_bytes b) (hex_of_bytes t)) r.pr_ranges)) dom
       | PErr -> Printf.printf "ERR dom=%d\n" dom | PPanicCL | PPanicIdx -> print_endline "PANIC")
    | ["rmp"] -> print_endline "OK"
    | ["rmp"; h] ->
      (match rmp_parse (bytes_of_hex h) with
       | POk ps -> print_endline (String.trim ("OK " ^ String.concat ";" (List.map (fun ((((s, e), z), b), t) -> Printf.sprintf "%s-%s/%s:%s:%s" (string_of_bytes (Model.show_N s)) (string_of_bytes (Model.show_N e)) (hex_of_bytes z) (hex_of_bytes b) (hex_of_bytes t)) ps)))
       | PErr -> print_endline "ERR" | PPanicCL | PPanicIdx -> print_endline "PANIC")
    | ["rp"; h] ->
      (match response_parse (bytes_of_hex h) with
       | POk r -> Printf.printf "OK %s %d %s h=[%s] r=[%s]\n" (hex_of_bytes r.pr_version) (int_of_n r.pr_status) (hex_of_bytes r.pr_reason)
                    (String.concat ";" (List.map (fun h -> hex_of_bytes h.hname ^ ":" ^ hex_of_bytes h.hvalue) r.pr_headers))
                    (String.concat ";" (List.map (fun ((((s, e), z), b), t) -> Printf.sprintf "%s-%s/%s:%s:%s" (string_of_bytes (Model.show_N s)) (string_of_bytes (Model.show_N e)) (string_of_bytes z) (hex_of_bytes b) (hex_of_bytes t)) r.pr_ranges))
       | PErr -> print_endline "ERR" | PPanicCL | PPanicIdx -> print_endline "PANIC")
    | "jobj" :: rest ->
      let h = (match rest with [x] -> x | _ -> "") in
      (match parse_as_properties (bytes_of_hex h) with
       | JErr -> print_endline "ERR"
       | JOk ps -> print_endline ("OK " ^ String.concat ";" (List.map (fun ((name, ty), v) ->
           hex_of_bytes name ^ "|" ^ (match ty with TString -> "String" | TBool -> "bool" | TObject -> "object" | TArray -> "array" | TInt -> "i128" | TFloat -> "f64") ^ "|" ^
           (match v with VNull -> "null" | VStr s -> "s" ^ hex_of_bytes s | VInt (ng, m) -> (if ng && m <> N0 then "-" else "") ^ dec_of_n m
                       | VFloat _ -> "f" | VArr r -> "a" ^ hex_of_bytes r | VObj r -> "o" ^ hex_of_bytes r | VBool b -> if b then "true" else "false")) ps)))
    | "jarr" :: rest ->
      let h = (match rest with [x] -> x | _ -> "") in
      (match split_array (bytes_of_hex h) with
       | AOk items -> print_endline ("OK " ^ String.concat ";" (List.map hex_of_bytes items))
       | AErr -> print_endline "ERR" | APanicUtf8 -> print_endline "PANIC")
    | ["reqrt"; m; u; v; hs; bd] | ["reqrt"; m; u; v; hs; bd; _] ->
      let hl = if hs = "-" then [] else List.map (fun nv -> match String.split_on_char ':' nv with [n; v] -> { hname = bytes_of_hex n; hvalue = bytes_of_hex v } | [n] -> { hname = bytes_of_hex n; hvalue = [] } | _ -> failwith "hdr") (String.split_on_char ';' hs) in
      let r = { method0 = bytes_of_hex m; uri = bytes_of_hex u; version = bytes_of_hex v; headers = hl; body = bytes_of_hex bd } in
      let g = generate r in
      Printf.printf "G %s | %s\n" (hex_of_bytes g) (match parse_request g with Ok r2 -> show_req r2 | Err _ -> "ERR" | Panic -> "PANIC")
    | ["reqrt"; m; u; v; hs] ->
      let hl = if hs = "-" then [] else List.map (fun nv -> match String.split_on_char ':' nv with [n; v] -> { hname = bytes_of_hex n; hvalue = bytes_of_hex v } | [n] -> { hname = bytes_of_hex n; hvalue = [] } | _ -> failwith "hdr") (String.split_on_char ';' hs) in
      let r = { method0 = bytes_of_hex m; uri = bytes_of_hex u; version = bytes_of_hex v; headers = hl; body = [] } in
      let g = generate r in
      Printf.printf "G %s | %s\n" (hex_of_bytes g) (match parse_request g with Ok r2 -> show_req r2 | Err _ -> "ERR" | Panic -> "PANIC")
    | ["gethdr"; hs; n] ->
      let hl = if hs = "-" then [] else List.map (fun nv -> match String.split_on_char ':' nv with [n; v] -> { hname = bytes_of_hex n; hvalue = bytes_of_hex v } | [n] -> { hname = bytes_of_hex n; hvalue = [] } | _ -> failwith "hdr") (String.split_on_char ';' hs) in
      let r = { method0 = []; uri = []; version = []; headers = hl; body = [] } in
      (match get_header r (bytes_of_hex n) with Some h -> print_endline ("SOME " ^ hex_of_bytes h.hvalue) | None -> print_endline "NONE")
    | ["ptrace"; n; tr] | ["ptrace"; n; tr; _] ->
      let rec nat_of_int i = if i <= 0 then O else S (nat_of_int (i - 1)) in
      let rec int_of_nat = function O -> 0 | S k -> 1 + int_of_nat k in
      let evs = if tr = "" || tr = "-" then [] else String.split_on_char ',' tr in
      let nsub = ref 0 in
      let labels = List.filter_map (fun e ->
        if e = "S" then (let j = !nsub in incr nsub; Some (Submit (nat_of_int j)))
        else match e.[0] with
          | 'A' -> Some (Acquire (nat_of_int (int_of_string (String.sub e 1 (String.length e - 1)))))
          | 'R' -> Some (Receive (nat_of_int (int_of_string (String.sub e 1 (String.length e - 1)))))
          | 'F' -> Some (Finish (nat_of_int (int_of_string (String.sub e 1 (String.length e - 1)))))
          | _ -> None) evs in
      let fuel = nat_of_int (4 * List.length labels + 10) in
      (match accept_trace fuel (init (nat_of_int (int_of_string n))) labels with
       | Some s -> Printf.printf "ACCEPT dead=%d done=%d queued=%d running=%d\n" (int_of_nat (dead s.ws)) (List.length s.done0) (List.length s.queue) (List.length (running s.ws))
       | None -> print_endline "REJECT")
    | ["b64e"; h] -> (match encode (bytes_of_hex h) with Some t -> print_endline ("OK " ^ hex_of_bytes t) | None -> print_endline "ERR")
    | ["b64d"; h] -> (match decode (bytes_of_hex h) with Some t -> print_endline ("OK " ^ hex_of_bytes t) | None -> print_endline "ERR")
    | ["b64e"] -> print_endline "OK "
    | ["b64d"] -> print_endline "OK "
    | "jrt" :: t :: _ ->
      (match parse_jv t with
       | None -> print_endline "SKIP"
       | Some v -> (match round_trip v with
           | None -> print_endline "GENERR"
           | Some (text, back) -> Printf.printf "T %s | %s flat=%d\n" (hex_of_bytes text) (match back with RtOk b -> "OK " ^ show_jv b | RtErr -> "ERR" | RtPanic -> "PANIC") (if in_domain v then 1 else 0)))
    | ("hdr" | "cd" | "rgspec" | "crv" | "cfgb" | "jprop" | "jtyped" | "upat" | "umatch" | "uext" | "ubuild") :: args ->
      let a1 = (match args with x :: _ -> x | [] -> "") in
      let a2 = (match args with _ :: y :: _ -> y | _ -> "") in
      let strip s = (* same as the Rust side: no trailing blank after OK *) String.trim s in
      let ok s = print_endline (strip ("OK " ^ s)) in
      let opt = function Some s -> "s" ^ hex_of_bytes s | None -> "-" in
      let sgn (ng, m) = (if ng && m <> N0 then "-" else "") ^ dec_of_n m in
      let utf8ok h = utf8_valid (bytes_of_hex h) in
      (match List.hd (String.split_on_char (Char.chr 32) l) with
       | "hdr" -> if not (utf8ok a1) then print_endline "SKIP" else (match parse_header (bytes_of_hex a1) with Some h -> ok (hex_of_bytes h.hname ^ ":" ^ hex_of_bytes h.hvalue) | None -> print_endline "ERR")
       | "cd" -> if not (utf8ok a1) then print_endline "SKIP" else (match cd_parse (bytes_of_hex a1) with Some c -> ok (hex_of_bytes c.cd_type ^ "|" ^ opt c.cd_name ^ "|" ^ opt c.cd_file) | None -> print_endline "ERR")
       | "rgspec" -> if not (utf8ok a2) then print_endline "SKIP" else (match parse_range (n_of_dec a1) (bytes_of_hex a2) with ROk' (s, e) -> ok (dec_of_n s ^ "-" ^ dec_of_n e) | R416 -> print_endline "ERR" | RPanicSub -> print_endline "PANIC")
       | "crv" -> if not (utf8ok a1) then print_endline "SKIP" else (match parse_cr_value (bytes_of_hex a1) with Some ((s, e), z) -> ok (sgn s ^ "," ^ sgn e ^ "," ^ sgn z) | None -> print_endline "ERR")
       | "cfgb" -> if read_config_bytes (bytes_of_hex a1) then ok "" else print_endline "ERR"
       | "jprop" -> if not (utf8ok a1) then print_endline "SKIP" else (match property_parse (bytes_of_hex a1) with
           | JErr -> print_endline "ERR"
           | JOk ((name, ty), v) -> ok (hex_of_bytes name ^ "|" ^ (match ty with TString -> "String" | TBool -> "bool" | TObject -> "object" | TArray -> "array" | TInt -> "i128" | TFloat -> "f64") ^ "|" ^
               (match v with VNull -> "null" | VStr s -> "s" ^ hex_of_bytes s | VInt (ng, m) -> sgn (ng, m) | VFloat _ -> "f" | VArr r -> "a" ^ hex_of_bytes r | VObj r -> "o" ^ hex_of_bytes r | VBool b -> if b then "true" else "false")))
       | "jtyped" -> if not (utf8ok a2) then print_endline "SKIP" else
           let k = (match a1 with "i8" -> Some (TkInt I8) | "i16" -> Some (TkInt I16) | "i32" -> Some (TkInt I32) | "i64" -> Some (TkInt I64) | "i128" -> Some (TkInt I128)
                    | "u8" -> Some (TkInt U8) | "u16" -> Some (TkInt U16) | "u32" -> Some (TkInt U32) | "u64" -> Some (TkInt U64) | "u128" -> Some (TkInt U128)
                    | "f64" | "f32" -> Some TkFloat | "str" -> Some TkStr | "bool" -> Some TkBool | "null" -> Some TkNull | _ -> None) in
           (match k with None -> print_endline "SKIP" | Some k ->
             (match typed_read k (bytes_of_hex a2) with
              | RtErr -> print_endline "ERR" | RtPanic -> print_endline "PANIC"
              | RtOk (TiInts xs) -> ok (String.concat ";" (List.map sgn xs))
              | RtOk (TiCount n) -> ok (string_of_int (nat_to_int n))
              | RtOk (TiStrs xs) -> ok (String.concat ";" (List.map (fun s -> "s" ^ hex_of_bytes s) xs))
              | RtOk (TiBools xs) -> ok (String.concat ";" (List.map (fun b -> if b then "1" else "0") xs))))
       | "upat" -> if not (utf8ok a1) then print_endline "SKIP" else (match upath_parts (bytes_of_hex a1) with
           | UROk ps -> ok (String.concat ";" (List.map (fun p -> if p.up_static then "S" ^ hex_of_bytes (utf8_enc (match p.up_pat with Some x -> x | None -> [])) else "T" ^ hex_of_bytes (utf8_enc (match p.up_name with Some x -> x | None -> []))) ps))
           | URErr -> print_endline "ERR" | URPanic -> print_endline "PANIC")
       | "umatch" -> if not (utf8ok a1 && utf8ok a2) then print_endline "SKIP" else (match upath_match (bytes_of_hex a1) (bytes_of_hex a2) with UROk b -> ok (if b then "1" else "0") | URErr -> print_endline "ERR" | URPanic -> print_endline "PANIC")
       | "uext" -> if not (utf8ok a1 && utf8ok a2) then print_endline "SKIP" else (match upath_extract (bytes_of_hex a1) (bytes_of_hex a2) with
           | UROk m -> ok (String.concat ";" (List.sort compare (List.map (fun (k, v) -> hex_of_bytes (utf8_enc k) ^ "=" ^ hex_of_bytes (utf8_enc v)) m)))
           | URErr -> print_endline "ERR" | URPanic -> print_endline "PANIC")
       | "ubuild" -> if not (utf8ok a2) then print_endline "SKIP" else
           let pairs = if a1 = "-" then [] else List.map (fun kv -> match String.split_on_char ':' kv with [k; v] -> (bytes_of_hex k, bytes_of_hex v) | [k] -> (bytes_of_hex k, []) | _ -> failwith "kv") (String.split_on_char ';' a1) in
           if not (List.for_all (fun (k, v) -> utf8_valid k && utf8_valid v) pairs) then print_endline "SKIP" else
           (match upath_build pairs (bytes_of_hex a2) with UROk s -> ok (hex_of_bytes (utf8_enc s)) | URErr -> print_endline "ERR" | URPanic -> print_endline "PANIC")
       | _ -> print_endline "?")
    | _ -> print_endline "?"
  done with End_of_file -> ()
